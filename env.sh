# source this: offline Go environment for govc (our own module)
export GOROOT_VERIF=/root/go/pkg/mod/golang.org/toolchain@v0.0.1-go1.26.2.linux-amd64
export PATH=$GOROOT_VERIF/bin:$PATH
export GOFLAGS=-mod=mod GOPROXY=off GOSUMDB=off GOTOOLCHAIN=local
