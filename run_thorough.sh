#!/bin/bash
# Runs every claimed check in the thorough tier (60 s per obligation, solver cross-check) and prints one line per property.
cd "$(dirname "$0")"
for p in $(python3 -c "import json;print(' '.join(c['property_id'] for c in json.load(open('MANIFEST.json'))['checks']))"); do
  ./check $p --tier thorough 2>&1 | grep "VIOLATION\|KNOWN-FINDING\|govc:" | cut -c1-260
done
