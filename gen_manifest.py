#!/usr/bin/env python3
# Generates MANIFEST.json from claims.json (single source of truth for what is claimed).
import json, subprocess
claims = json.load(open('/verif/claims.json'))
props = [json.loads(l) for l in open('/verif/properties.jsonl')]
hooks_commits = subprocess.run(['git','-C','/repo','log','--format=%H %s'],capture_output=True,text=True).stdout.strip().split('\n')
src = [l.split()[0] for l in hooks_commits if ' verif:' in l or l.split(' ',1)[1].startswith('verif')]
checks=[]; na=[]
for p in props:
    pid=p['id']
    c=claims.get(pid)
    if not c or c.get('na'):
        na.append({"property_id":pid,"reason":(c or {}).get('na') or "not yet brought under contract in this round; no check registered"})
        continue
    checks.append({
      "property_id":pid,
      "quick_cmd":f"./check {pid} --tier quick",
      "thorough_cmd":f"./check {pid} --tier thorough",
      "evidence_file":f"/verif/evidence/{pid}.json",
      "replay_cmd_template":"./check "+pid+" --replay {path}",
      "engine":"govc",
      "level_claimed":{"category":"proof","text":c['text'],"design_ref":c.get('design_ref','DESIGN.md §8 '+pid)},
      "level_note":c['note'],
      "technique":"contract-based deductive verification: weakest-precondition obligations generated from go/ssa of the real functions, contracts in zz_contracts_verif.go, discharged by z3/cvc5",
    })
m={"version":1,
   "setup_cmd":"./setup.sh",
   "hooks":{"guard":"verif","enable":"go build -tags verif (comment-only contract files zz_contracts_verif.go)","baseline_off_cmd":"cd /repo && go test -vet=off -count=1 -timeout 25m ./...","source_commits":src,"add_only":True},
   "engines":[{"name":"govc","path":"/verif/govc","serves_properties":[c['property_id'] for c in checks],"kind_free_text":"own VC generator over go/ssa (naive form) + SMT (z3 4.8.12, z3 5.1.0, cvc5 1.0.3 raced)"}],
   "checks":checks,
   "not_applicable":na,
   "notes":"See DESIGN.md. KNOWN_FINDINGS.json lists recorded defects; seeded/ holds confirmed property-breaking changes and which obligation catches each."}
json.dump(m,open('/verif/MANIFEST.json','w'),indent=1)
print(len(checks),"checks",len(na),"n/a")
