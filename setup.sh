#!/bin/bash
# Offline setup: build govc with the repository's own toolchain (module cache), warm the Go build
# cache with export data for the packages under contract.
set -e
cd "$(dirname "$0")"
. ./env.sh
mkdir -p bin out evidence
(cd govc && go build -o ../bin/govc .)
# warm-up: one load of every package that has a contract file
./bin/govc -prop WARMUP -tier quick >/dev/null 2>&1 || true
echo setup done
