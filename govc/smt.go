package main

import (
	"os"
	"fmt"
	"go/types"
	"math/big"
	"sort"
	"strings"
)

// Sort is an SMT-LIB sort, kept as its textual form.
type Sort string

const (
	SInt   Sort = "Int"
	SBool  Sort = "Bool"
	SSlice Sort = "Slice"
)

// Term is an SMT-LIB term with its sort.
type Term struct {
	S    string
	Sort Sort
}

func (t Term) String() string { return t.S }

func mk(sort Sort, op string, args ...Term) Term {
	var b strings.Builder
	b.WriteString("(")
	b.WriteString(op)
	for _, a := range args {
		b.WriteString(" ")
		b.WriteString(a.S)
	}
	b.WriteString(")")
	return Term{b.String(), sort}
}

func intLit(v int64) Term {
	if v < 0 {
		return Term{fmt.Sprintf("(- %d)", -v), SInt}
	}
	return Term{fmt.Sprintf("%d", v), SInt}
}

func bigLit(v *big.Int) Term {
	if v.Sign() < 0 {
		return Term{fmt.Sprintf("(- %s)", new(big.Int).Neg(v).String()), SInt}
	}
	return Term{v.String(), SInt}
}

var (
	tTrue  = Term{"true", SBool}
	tFalse = Term{"false", SBool}
	tZero  = Term{"0", SInt}
)

func and(ts ...Term) Term {
	var xs []Term
	for _, t := range ts {
		if t.S == "true" {
			continue
		}
		if t.S == "false" {
			return tFalse
		}
		xs = append(xs, t)
	}
	if len(xs) == 0 {
		return tTrue
	}
	if len(xs) == 1 {
		return xs[0]
	}
	return mk(SBool, "and", xs...)
}

func or(ts ...Term) Term {
	var xs []Term
	for _, t := range ts {
		if t.S == "false" {
			continue
		}
		if t.S == "true" {
			return tTrue
		}
		xs = append(xs, t)
	}
	if len(xs) == 0 {
		return tFalse
	}
	if len(xs) == 1 {
		return xs[0]
	}
	return mk(SBool, "or", xs...)
}

func not(t Term) Term {
	if t.S == "true" {
		return tFalse
	}
	if t.S == "false" {
		return tTrue
	}
	return mk(SBool, "not", t)
}

func implies(a, b Term) Term {
	if a.S == "true" {
		return b
	}
	if a.S == "false" || b.S == "true" {
		return tTrue
	}
	return mk(SBool, "=>", a, b)
}

func eq(a, b Term) Term {
	if a.S == b.S {
		return tTrue
	}
	return mk(SBool, "=", a, b)
}

func ite(c, a, b Term) Term {
	if c.S == "true" {
		return a
	}
	if c.S == "false" {
		return b
	}
	if a.S == b.S {
		return a
	}
	return mk(a.Sort, "ite", c, a, b)
}

func sel(arr, idx Term) Term {
	// fold select-of-store on the syntactically same index
	if strings.HasPrefix(arr.S, "(store ") {
		if args := sexprArgs(arr.S); len(args) == 4 && args[2] == idx.S {
			return Term{args[3], arrayElemSort(arr.Sort)}
		}
	}
	s := string(arr.Sort)
	// (Array K V) -> V
	return mk(arrayElemSort(Sort(s)), "select", arr, idx)
}

func store(arr, idx, v Term) Term { return mk(arr.Sort, "store", arr, idx, v) }

func arraySort(k, v Sort) Sort { return Sort(fmt.Sprintf("(Array %s %s)", k, v)) }

// arrayElemSort parses "(Array K V)" and returns V.
func arrayElemSort(s Sort) Sort {
	str := string(s)
	if !strings.HasPrefix(str, "(Array ") {
		panic("not an array sort: " + str)
	}
	body := str[len("(Array ") : len(str)-1]
	// split the first sort
	i := splitSort(body)
	return Sort(strings.TrimSpace(body[i:]))
}

func arrayKeySort(s Sort) Sort {
	str := string(s)
	body := str[len("(Array ") : len(str)-1]
	i := splitSort(body)
	return Sort(strings.TrimSpace(body[:i]))
}

func splitSort(body string) int {
	depth := 0
	for i, c := range body {
		switch c {
		case '(':
			depth++
		case ')':
			depth--
		case ' ':
			if depth == 0 {
				return i
			}
		}
	}
	return len(body)
}

func add(a, b Term) Term {
	if b.S == "0" {
		return a
	}
	if a.S == "0" {
		return b
	}
	return mk(SInt, "+", a, b)
}
func sub(a, b Term) Term {
	if b.S == "0" {
		return a
	}
	return mk(SInt, "-", a, b)
}
func mul(a, b Term) Term { return mk(SInt, "*", a, b) }
func le(a, b Term) Term  { return mk(SBool, "<=", a, b) }
func lt(a, b Term) Term  { return mk(SBool, "<", a, b) }
func ge(a, b Term) Term  { return mk(SBool, ">=", a, b) }
func gt(a, b Term) Term  { return mk(SBool, ">", a, b) }

// eidx is the position of element i of a slice with offset off inside its backing array. It is an
// uninterpreted function with the defining axiom idx(a,b) = a+b, so that quantified facts about
// slice elements have arithmetic-free triggers.
func eidx(off, i Term) Term { return mk(SInt, "idx", off, i) }

// slice accessors
func sBase(s Term) Term { return sliceAcc(s, "s_base", 0) }
func sOff(s Term) Term  { return sliceAcc(s, "s_off", 1) }
func sLen(s Term) Term  { return sliceAcc(s, "s_len", 2) }
func sCap(s Term) Term  { return sliceAcc(s, "s_cap", 3) }

// sliceAcc applies a slice accessor, folding accessor-of-constructor.
func sliceAcc(s Term, acc string, i int) Term {
	if strings.HasPrefix(s.S, "(mk_slice ") {
		if args := sexprArgs(s.S); len(args) == 5 {
			return Term{args[i+1], SInt}
		}
	}
	return mk(SInt, acc, s)
}

// sexprArgs splits "(f a b c)" into [f a b c] at the top level.
func sexprArgs(s string) []string {
	if len(s) < 2 || s[0] != '(' || s[len(s)-1] != ')' {
		return nil
	}
	body := s[1 : len(s)-1]
	var out []string
	depth := 0
	start := -1
	for i := 0; i <= len(body); i++ {
		var c byte = ' '
		if i < len(body) {
			c = body[i]
		}
		switch {
		case c == '(':
			if depth == 0 && start < 0 {
				start = i
			}
			depth++
		case c == ')':
			depth--
		case c == ' ' || c == '\n':
			if depth == 0 && start >= 0 {
				out = append(out, body[start:i])
				start = -1
			}
		default:
			if start < 0 {
				start = i
			}
		}
	}
	return out
}
func mkSlice(base, off, ln, cp Term) Term {
	return mk(SSlice, "mk_slice", base, off, ln, cp)
}

var nilSlice = Term{"(mk_slice 0 0 0 0)", SSlice}

// ---------------------------------------------------------------------------
// Type universe: Go types -> sorts, datatype declarations

type structInfo struct {
	sort   Sort
	fields []structField
	st     *types.Struct
}

type structField struct {
	name string
	acc  string // accessor name
	sort Sort
	typ  types.Type
}

type Universe struct {
	structs    map[string]*structInfo // by sort name
	structKeys map[string]string      // types.Type string -> sort name
	order      []string               // declaration order
	decls      map[string]string      // extra declarations name -> decl text (functions, consts)
	declOrder  []string
	typeIDs    map[string]int
	strIDs     map[string]int
	axioms     []string // global axioms (ground facts about declared symbols)
	axiomSet   map[string]bool
}

func newUniverse() *Universe {
	return &Universe{
		structs:    map[string]*structInfo{},
		structKeys: map[string]string{},
		decls:      map[string]string{},
		typeIDs:    map[string]int{},
		strIDs:     map[string]int{},
		axiomSet:   map[string]bool{},
	}
}

func mangle(s string) string {
	var b strings.Builder
	for _, c := range s {
		switch {
		case c >= 'a' && c <= 'z', c >= 'A' && c <= 'Z', c >= '0' && c <= '9', c == '_':
			b.WriteRune(c)
		case c == '.' || c == '/':
			b.WriteRune('_')
		case c == '*':
			b.WriteString("P")
		case c == '[' || c == ']':
			b.WriteString("B")
		default:
			b.WriteString("_")
		}
	}
	return b.String()
}

func shortTypeName(t types.Type) string {
	return mangle(canonName(t))
}

// canonName prints a type with byte/rune normalised to uint8/int32, so that identical types
// always map to the same heap.
func canonName(t types.Type) string {
	t = types.Unalias(t)
	switch tt := t.(type) {
	case *types.Basic:
		switch tt.Kind() {
		case types.Uint8:
			return "uint8"
		case types.Int32:
			return "int32"
		}
		return tt.Name()
	case *types.Pointer:
		return "*" + canonName(tt.Elem())
	case *types.Slice:
		return "[]" + canonName(tt.Elem())
	case *types.Array:
		return fmt.Sprintf("[%d]%s", tt.Len(), canonName(tt.Elem()))
	case *types.Map:
		return "map[" + canonName(tt.Key()) + "]" + canonName(tt.Elem())
	}
	return types.TypeString(t, func(p *types.Package) string { return p.Name() })
}

func (u *Universe) sortOf(t types.Type) Sort {
	t = types.Unalias(t)
	switch tt := t.(type) {
	case *types.Named:
		if st, ok := tt.Underlying().(*types.Struct); ok {
			return u.structSort(tt, st)
		}
		return u.sortOf(tt.Underlying())
	case *types.Basic:
		if tt.Info()&types.IsBoolean != 0 {
			return SBool
		}
		return SInt
	case *types.Pointer, *types.Map, *types.Chan, *types.Signature, *types.Interface:
		return SInt
	case *types.Slice:
		return SSlice
	case *types.Array:
		return arraySort(SInt, u.sortOf(tt.Elem()))
	case *types.Struct:
		return u.structSort(nil, tt)
	case *types.TypeParam:
		return SInt
	case *types.Tuple:
		if tt.Len() == 1 {
			return u.sortOf(tt.At(0).Type())
		}
		return SInt
	}
	return SInt
}

func (u *Universe) structSort(named *types.Named, st *types.Struct) Sort {
	var key string
	if named != nil {
		key = types.TypeString(named, nil)
	} else {
		key = types.TypeString(st, nil)
	}
	if s, ok := u.structKeys[key]; ok {
		return Sort(s)
	}
	var name string
	if named != nil {
		name = "S_" + shortTypeName(named)
	} else {
		name = fmt.Sprintf("S_anon%d", len(u.structKeys))
	}
	// ensure uniqueness
	base := name
	for i := 2; ; i++ {
		if _, ok := u.structs[name]; !ok {
			break
		}
		name = fmt.Sprintf("%s_%d", base, i)
	}
	if name != base && os.Getenv("GOVC_DEBUG_SORTS") != "" {
		fmt.Fprintf(os.Stderr, "sort %s for key %q (named=%v)\n", name, key, named != nil)
	}
	u.structKeys[key] = name
	info := &structInfo{sort: Sort(name), st: st}
	u.structs[name] = info // reserve (no by-value recursion possible)
	for i := 0; i < st.NumFields(); i++ {
		f := st.Field(i)
		fs := u.sortOf(f.Type())
		acc := fmt.Sprintf("%s__%s", name, mangle(f.Name()))
		if f.Name() == "_" {
			acc = fmt.Sprintf("%s__blank%d", name, i)
		}
		info.fields = append(info.fields, structField{
			name: f.Name(), acc: acc, sort: fs, typ: f.Type(),
		})
	}
	u.order = append(u.order, name)
	return Sort(name)
}

func (u *Universe) structInfoOf(s Sort) *structInfo { return u.structs[string(s)] }

func (u *Universe) mkStruct(s Sort, vals []Term) Term {
	if len(vals) == 0 {
		return Term{"mk_" + string(s), s}
	}
	return mk(s, "mk_"+string(s), vals...)
}

func (u *Universe) field(v Term, i int) Term {
	info := u.structInfoOf(v.Sort)
	if info == nil {
		panic("field of non-struct sort " + string(v.Sort) + " term " + v.S)
	}
	f := info.fields[i]
	// fold accessor-of-constructor
	if strings.HasPrefix(v.S, "(mk_"+string(v.Sort)+" ") {
		if args := sexprArgs(v.S); len(args) == len(info.fields)+1 {
			return Term{args[i+1], f.sort}
		}
	}
	return mk(f.sort, f.acc, v)
}

func (u *Universe) withField(v Term, i int, nv Term) Term {
	info := u.structInfoOf(v.Sort)
	vals := make([]Term, len(info.fields))
	for j := range info.fields {
		if j == i {
			vals[j] = nv
		} else {
			vals[j] = u.field(v, j)
		}
	}
	return u.mkStruct(v.Sort, vals)
}

func (u *Universe) zero(t types.Type) Term {
	s := u.sortOf(t)
	return u.zeroOfSort(s)
}

func (u *Universe) zeroOfSort(s Sort) Term {
	switch {
	case s == SInt:
		return tZero
	case s == SBool:
		return tFalse
	case s == SSlice:
		return nilSlice
	case strings.HasPrefix(string(s), "(Array "):
		return Term{fmt.Sprintf("((as const %s) %s)", s, u.zeroOfSort(arrayElemSort(s)).S), s}
	}
	info := u.structInfoOf(s)
	if info == nil {
		panic("zero of unknown sort " + string(s))
	}
	vals := make([]Term, len(info.fields))
	for i, f := range info.fields {
		vals[i] = u.zeroOfSort(f.sort)
	}
	return u.mkStruct(s, vals)
}

func (u *Universe) declare(name, decl string) {
	if _, ok := u.decls[name]; ok {
		return
	}
	u.decls[name] = decl
	u.declOrder = append(u.declOrder, name)
}

func (u *Universe) declareConst(name string, s Sort) Term {
	u.declare(name, fmt.Sprintf("(declare-const %s %s)", name, s))
	return Term{name, s}
}

func (u *Universe) declareFun(name string, args []Sort, ret Sort) {
	as := make([]string, len(args))
	for i, a := range args {
		as[i] = string(a)
	}
	u.declare(name, fmt.Sprintf("(declare-fun %s (%s) %s)", name, strings.Join(as, " "), ret))
}

func (u *Universe) addAxiom(a string) {
	if u.axiomSet[a] {
		return
	}
	u.axiomSet[a] = true
	u.axioms = append(u.axioms, a)
}

func (u *Universe) typeID(t types.Type) Term {
	k := types.TypeString(types.Unalias(t), nil)
	id, ok := u.typeIDs[k]
	if !ok {
		id = len(u.typeIDs) + 1
		u.typeIDs[k] = id
	}
	return intLit(int64(id))
}

// strConst interns a string constant; the empty string is 0.
func (u *Universe) strConst(s string) Term {
	if s == "" {
		return tZero
	}
	id, ok := u.strIDs[s]
	if !ok {
		id = len(u.strIDs) + 1
		u.strIDs[s] = id
		u.addAxiom(fmt.Sprintf("(= (strlen %d) %d)", id, len(s)))
	}
	return intLit(int64(id))
}

const preludeText = `(declare-datatypes ((Slice 0)) (((mk_slice (s_base Int) (s_off Int) (s_len Int) (s_cap Int)))))
(define-fun godiv ((x Int) (y Int)) Int (ite (>= x 0) (ite (> y 0) (div x y) (- (div x (- y)))) (ite (> y 0) (- (div (- x) y)) (div (- x) (- y)))))
(define-fun gomod ((x Int) (y Int)) Int (- x (* y (godiv x y))))
(declare-fun idx (Int Int) Int)
(assert (forall ((a! Int) (b! Int)) (! (= (idx a! b!) (+ a! b!)) :pattern ((idx a! b!)))))
(declare-fun strlen (Int) Int)
(assert (= (strlen 0) 0))
(declare-fun typeof (Int) Int)
(declare-fun bitand (Int Int) Int)
(declare-fun bitor (Int Int) Int)
(declare-fun bitxor (Int Int) Int)
(declare-fun shl (Int Int) Int)
(declare-fun shr (Int Int) Int)
`

// prelude emits all declarations. Only names referenced by the query text are
// emitted for consts/funs (cone of influence by symbol), datatypes always.
func (u *Universe) prelude(body string) string {
	var b strings.Builder
	b.WriteString(preludeText)
	for _, name := range u.order {
		info := u.structs[name]
		if len(info.fields) == 0 {
			fmt.Fprintf(&b, "(declare-datatypes ((%s 0)) (((mk_%s))))\n", name, name)
			continue
		}
		fmt.Fprintf(&b, "(declare-datatypes ((%s 0)) (((mk_%s", name, name)
		for _, f := range info.fields {
			fmt.Fprintf(&b, " (%s %s)", f.acc, f.sort)
		}
		b.WriteString("))))\n")
	}
	// iterate: include declarations whose name appears in body or in already-included decl/axiom
	included := map[string]bool{}
	text := body
	changed := true
	toks := tokenSet(text)
	var axIncluded = map[string]bool{}
	var extra strings.Builder
	for changed {
		changed = false
		for _, name := range u.declOrder {
			if included[name] {
				continue
			}
			if toks[name] {
				included[name] = true
				changed = true
				for t := range tokenSet(u.decls[name]) {
					toks[t] = true
				}
			}
		}
		for _, a := range u.axioms {
			if axIncluded[a] {
				continue
			}
			// include an axiom if all of its non-builtin declared symbols are included or referenced
			at := tokenSet(a)
			rel := false
			for t := range at {
				if _, isDecl := u.decls[t]; isDecl && toks[t] {
					rel = true
					break
				}
			}
			if !rel && !hasDeclTok(u, at) {
				rel = true // ground fact over builtins only (e.g. strlen consts)
			}
			if rel {
				axIncluded[a] = true
				changed = true
				for t := range at {
					toks[t] = true
				}
			}
		}
	}
	for _, name := range u.declOrder {
		if included[name] {
			b.WriteString(u.decls[name])
			b.WriteString("\n")
		}
	}
	for _, a := range u.axioms {
		if axIncluded[a] {
			fmt.Fprintf(&extra, "(assert %s)\n", a)
		}
	}
	b.WriteString(extra.String())
	return b.String()
}

func hasDeclTok(u *Universe, toks map[string]bool) bool {
	for t := range toks {
		if _, ok := u.decls[t]; ok {
			return true
		}
	}
	return false
}

func tokenSet(s string) map[string]bool {
	m := map[string]bool{}
	start := -1
	for i := 0; i <= len(s); i++ {
		var c byte = ' '
		if i < len(s) {
			c = s[i]
		}
		if c == '(' || c == ')' || c == ' ' || c == '\n' || c == '\t' {
			if start >= 0 {
				m[s[start:i]] = true
				start = -1
			}
		} else if start < 0 {
			start = i
		}
	}
	return m
}

func sortedKeys[V any](m map[string]V) []string {
	ks := make([]string, 0, len(m))
	for k := range m {
		ks = append(ks, k)
	}
	sort.Strings(ks)
	return ks
}

// intRange returns (lo, hi, ok) for basic integer types.
func intRange(t types.Type) (lo, hi *big.Int, ok bool) {
	b, isB := types.Unalias(t).Underlying().(*types.Basic)
	if !isB || b.Info()&types.IsInteger == 0 {
		return nil, nil, false
	}
	pow := func(n uint) *big.Int { return new(big.Int).Lsh(big.NewInt(1), n) }
	one := big.NewInt(1)
	switch b.Kind() {
	case types.Int8:
		return new(big.Int).Neg(pow(7)), new(big.Int).Sub(pow(7), one), true
	case types.Int16:
		return new(big.Int).Neg(pow(15)), new(big.Int).Sub(pow(15), one), true
	case types.Int32:
		return new(big.Int).Neg(pow(31)), new(big.Int).Sub(pow(31), one), true
	case types.Int, types.Int64, types.UntypedInt:
		return new(big.Int).Neg(pow(63)), new(big.Int).Sub(pow(63), one), true
	case types.Uint8:
		return big.NewInt(0), new(big.Int).Sub(pow(8), one), true
	case types.Uint16:
		return big.NewInt(0), new(big.Int).Sub(pow(16), one), true
	case types.Uint32:
		return big.NewInt(0), new(big.Int).Sub(pow(32), one), true
	case types.Uint, types.Uint64, types.Uintptr:
		return big.NewInt(0), new(big.Int).Sub(pow(64), one), true
	}
	return nil, nil, false
}

func isUnsigned(t types.Type) bool {
	b, ok := types.Unalias(t).Underlying().(*types.Basic)
	return ok && b.Info()&types.IsUnsigned != 0
}

func isInteger(t types.Type) bool {
	b, ok := types.Unalias(t).Underlying().(*types.Basic)
	return ok && b.Info()&types.IsInteger != 0
}

func isString(t types.Type) bool {
	b, ok := types.Unalias(t).Underlying().(*types.Basic)
	return ok && b.Info()&types.IsString != 0
}

func isFloat(t types.Type) bool {
	b, ok := types.Unalias(t).Underlying().(*types.Basic)
	return ok && b.Info()&(types.IsFloat|types.IsComplex) != 0
}

func bitWidth(t types.Type) uint {
	b, ok := types.Unalias(t).Underlying().(*types.Basic)
	if !ok {
		return 64
	}
	switch b.Kind() {
	case types.Int8, types.Uint8:
		return 8
	case types.Int16, types.Uint16:
		return 16
	case types.Int32, types.Uint32:
		return 32
	}
	return 64
}

// wrap returns the term v reduced into the range of integer type t.
func wrapTo(v Term, t types.Type) Term {
	w := bitWidth(t)
	m := new(big.Int).Lsh(big.NewInt(1), w)
	if isUnsigned(t) {
		return mk(SInt, "mod", v, bigLit(m))
	}
	h := new(big.Int).Lsh(big.NewInt(1), w-1)
	// ((v + h) mod m) - h
	return sub(mk(SInt, "mod", add(v, bigLit(h)), bigLit(m)), bigLit(h))
}

// rangeFacts returns facts every well-typed value of type t satisfies (shallow + struct fields).
func (u *Universe) rangeFacts(v Term, t types.Type, depth int) []Term {
	t = types.Unalias(t)
	var out []Term
	if lo, hi, ok := intRange(t); ok {
		out = append(out, le(bigLit(lo), v), le(v, bigLit(hi)))
		return out
	}
	if isString(t) {
		return out
	}
	switch tt := t.Underlying().(type) {
	case *types.Slice:
		out = append(out, le(tZero, sLen(v)), le(sLen(v), sCap(v)), le(tZero, sOff(v)), le(sCap(v), bigLit(maxInt64)),
			implies(eq(sBase(v), tZero), eq(sCap(v), tZero)))
	case *types.Struct:
		if depth <= 0 {
			return out
		}
		if v.Sort == SInt {
			return out
		}
		info := u.structInfoOf(v.Sort)
		if info == nil {
			return out
		}
		for i := 0; i < tt.NumFields() && i < len(info.fields); i++ {
			out = append(out, u.rangeFacts(u.field(v, i), tt.Field(i).Type(), depth-1)...)
		}
	}
	return out
}

var maxInt64 = new(big.Int).SetInt64(9223372036854775807)
