package main

import (
	"fmt"
	"os"
	"path/filepath"
	"strconv"
	"strings"
	"unicode"
)

// ---------------------------------------------------------------------------
// Spec expression AST

type Expr interface{ exprString() string }

type (
	EIdent  struct{ Name string }
	EInt    struct{ Val string }
	EStr    struct{ Val string }
	EBool   struct{ Val bool }
	ENil    struct{}
	EUnary  struct {
		Op string
		X  Expr
	}
	EBinary struct {
		Op   string
		X, Y Expr
	}
	ECond struct{ C, A, B Expr }
	ECall struct {
		Fun  Expr
		Args []Expr
	}
	ESel struct {
		X    Expr
		Name string
	}
	EIndex struct{ X, I Expr }
	ESlice struct{ X, Lo, Hi Expr }
	EQuant struct {
		Forall bool
		Vars   []QVar
		Body   Expr
	}
	EOld struct{ X Expr }
)

type QVar struct {
	Name string
	Type string // Go type expression text, e.g. int, uint64, []byte
}

func (e *EIdent) exprString() string  { return e.Name }
func (e *EInt) exprString() string    { return e.Val }
func (e *EStr) exprString() string    { return strconv.Quote(e.Val) }
func (e *EBool) exprString() string   { return fmt.Sprint(e.Val) }
func (e *ENil) exprString() string    { return "nil" }
func (e *EUnary) exprString() string  { return e.Op + e.X.exprString() }
func (e *EBinary) exprString() string { return "(" + e.X.exprString() + " " + e.Op + " " + e.Y.exprString() + ")" }
func (e *ECond) exprString() string {
	return "(" + e.C.exprString() + " ? " + e.A.exprString() + " : " + e.B.exprString() + ")"
}
func (e *ECall) exprString() string {
	var as []string
	for _, a := range e.Args {
		as = append(as, a.exprString())
	}
	return e.Fun.exprString() + "(" + strings.Join(as, ", ") + ")"
}
func (e *ESel) exprString() string   { return e.X.exprString() + "." + e.Name }
func (e *EIndex) exprString() string { return e.X.exprString() + "[" + e.I.exprString() + "]" }
func (e *ESlice) exprString() string {
	lo, hi := "", ""
	if e.Lo != nil {
		lo = e.Lo.exprString()
	}
	if e.Hi != nil {
		hi = e.Hi.exprString()
	}
	return e.X.exprString() + "[" + lo + ":" + hi + "]"
}
func (e *EQuant) exprString() string {
	q := "exists"
	if e.Forall {
		q = "forall"
	}
	var vs []string
	for _, v := range e.Vars {
		vs = append(vs, v.Name+" "+v.Type)
	}
	return "(" + q + " " + strings.Join(vs, ", ") + " :: " + e.Body.exprString() + ")"
}
func (e *EOld) exprString() string { return "old(" + e.X.exprString() + ")" }

// ---------------------------------------------------------------------------
// Lexer

type stok struct {
	kind string // ident, int, str, op, eof
	text string
}

func lexSpec(s string) ([]stok, error) {
	var toks []stok
	i := 0
	for i < len(s) {
		c := s[i]
		switch {
		case c == ' ' || c == '\t' || c == '\n':
			i++
		case unicode.IsLetter(rune(c)) || c == '_' || c == '$':
			j := i + 1
			for j < len(s) && (unicode.IsLetter(rune(s[j])) || unicode.IsDigit(rune(s[j])) || s[j] == '_' || s[j] == '$' || s[j] == '#') {
				j++
			}
			toks = append(toks, stok{"ident", s[i:j]})
			i = j
		case unicode.IsDigit(rune(c)):
			j := i + 1
			for j < len(s) && (unicode.IsDigit(rune(s[j])) || s[j] == 'x' || (s[j] >= 'a' && s[j] <= 'f') || (s[j] >= 'A' && s[j] <= 'F') || s[j] == '_') {
				j++
			}
			toks = append(toks, stok{"int", s[i:j]})
			i = j
		case c == '"':
			j := i + 1
			for j < len(s) && s[j] != '"' {
				if s[j] == '\\' {
					j++
				}
				j++
			}
			if j >= len(s) {
				return nil, fmt.Errorf("unterminated string")
			}
			v, err := strconv.Unquote(s[i : j+1])
			if err != nil {
				return nil, err
			}
			toks = append(toks, stok{"str", v})
			i = j + 1
		default:
			ops := []string{"<==>", "==>", "::", "==", "!=", "<=", ">=", "&&", "||", "<<", ">>", "&^",
				"+", "-", "*", "/", "%", "<", ">", "!", "(", ")", "[", "]", ".", ",", ":", "?", "&", "|", "^", "{", "}", "="}
			matched := false
			for _, op := range ops {
				if strings.HasPrefix(s[i:], op) {
					toks = append(toks, stok{"op", op})
					i += len(op)
					matched = true
					break
				}
			}
			if !matched {
				return nil, fmt.Errorf("unexpected character %q in spec %q", c, s)
			}
		}
	}
	toks = append(toks, stok{"eof", ""})
	return toks, nil
}

// ---------------------------------------------------------------------------
// Parser

type specParser struct {
	toks []stok
	pos  int
	src  string
}

func parseSpecExpr(s string) (Expr, error) {
	toks, err := lexSpec(s)
	if err != nil {
		return nil, err
	}
	p := &specParser{toks: toks, src: s}
	e, err := p.parseExpr()
	if err != nil {
		return nil, fmt.Errorf("%v in %q", err, s)
	}
	if p.peek().kind != "eof" {
		return nil, fmt.Errorf("trailing tokens at %q in %q", p.peek().text, s)
	}
	return e, nil
}

func (p *specParser) peek() stok { return p.toks[p.pos] }
func (p *specParser) next() stok { t := p.toks[p.pos]; p.pos++; return t }
func (p *specParser) isOp(op string) bool {
	t := p.peek()
	return t.kind == "op" && t.text == op
}
func (p *specParser) accept(op string) bool {
	if p.isOp(op) {
		p.pos++
		return true
	}
	return false
}
func (p *specParser) expect(op string) error {
	if !p.accept(op) {
		return fmt.Errorf("expected %q, got %q", op, p.peek().text)
	}
	return nil
}

func (p *specParser) parseExpr() (Expr, error) {
	t := p.peek()
	if t.kind == "ident" && (t.text == "forall" || t.text == "exists") {
		p.next()
		var sb strings.Builder
		prevIdent := false
		for !p.isOp("::") {
			tk := p.next()
			if tk.kind == "eof" {
				return nil, fmt.Errorf("quantifier without ::")
			}
			if tk.kind == "ident" || tk.kind == "int" {
				if prevIdent {
					sb.WriteString(" ")
				}
				prevIdent = true
			} else {
				prevIdent = tk.text == "]"
				if tk.text == "]" {
					prevIdent = false
				}
			}
			sb.WriteString(tk.text)
		}
		vars, err := parseVarList(sb.String())
		if err != nil {
			return nil, err
		}
		if err := p.expect("::"); err != nil {
			return nil, err
		}
		body, err := p.parseExpr()
		if err != nil {
			return nil, err
		}
		return &EQuant{Forall: t.text == "forall", Vars: vars, Body: body}, nil
	}
	return p.parseIff()
}

// parseTypeText reads a Go type expression as text: [*|[]|[N]]* ident(.ident)?
func (p *specParser) parseTypeText() (string, error) {
	var b strings.Builder
	for {
		if p.accept("*") {
			b.WriteString("*")
			continue
		}
		if p.isOp("[") {
			p.next()
			if p.accept("]") {
				b.WriteString("[]")
				continue
			}
			n := p.next()
			if n.kind != "int" {
				return "", fmt.Errorf("bad array type")
			}
			if err := p.expect("]"); err != nil {
				return "", err
			}
			b.WriteString("[" + n.text + "]")
			continue
		}
		break
	}
	n := p.next()
	if n.kind != "ident" {
		return "", fmt.Errorf("expected type name, got %q", n.text)
	}
	b.WriteString(n.text)
	if p.isOp(".") {
		p.next()
		m := p.next()
		b.WriteString("." + m.text)
	}
	return b.String(), nil
}

func (p *specParser) parseIff() (Expr, error) {
	x, err := p.parseImplies()
	if err != nil {
		return nil, err
	}
	for p.accept("<==>") {
		y, err := p.parseImplies()
		if err != nil {
			return nil, err
		}
		x = &EBinary{"<==>", x, y}
	}
	return x, nil
}

func (p *specParser) parseImplies() (Expr, error) {
	x, err := p.parseCond()
	if err != nil {
		return nil, err
	}
	if p.accept("==>") {
		// right assoc; the consequent may itself be a quantifier
		var y Expr
		if t := p.peek(); t.kind == "ident" && (t.text == "forall" || t.text == "exists") {
			y, err = p.parseExpr()
		} else {
			y, err = p.parseImplies()
		}
		if err != nil {
			return nil, err
		}
		return &EBinary{"==>", x, y}, nil
	}
	return x, nil
}

func (p *specParser) parseCond() (Expr, error) {
	c, err := p.parseBin(0)
	if err != nil {
		return nil, err
	}
	if p.accept("?") {
		a, err := p.parseCond()
		if err != nil {
			return nil, err
		}
		if err := p.expect(":"); err != nil {
			return nil, err
		}
		b, err := p.parseCond()
		if err != nil {
			return nil, err
		}
		return &ECond{c, a, b}, nil
	}
	return c, nil
}

var binPrec = []([]string){
	{"||"},
	{"&&"},
	{"==", "!=", "<", "<=", ">", ">="},
	{"+", "-", "|", "^"},
	{"*", "/", "%", "<<", ">>", "&", "&^"},
}

func (p *specParser) parseBin(level int) (Expr, error) {
	if level >= len(binPrec) {
		return p.parseUnary()
	}
	x, err := p.parseBin(level + 1)
	if err != nil {
		return nil, err
	}
	for {
		matched := false
		for _, op := range binPrec[level] {
			if p.isOp(op) {
				p.next()
				var y Expr
				// allow quantifier on the rhs of && / ||
				if t := p.peek(); level <= 1 && t.kind == "ident" && (t.text == "forall" || t.text == "exists") {
					y, err = p.parseExpr()
				} else {
					y, err = p.parseBin(level + 1)
				}
				if err != nil {
					return nil, err
				}
				x = &EBinary{op, x, y}
				matched = true
				break
			}
		}
		if !matched {
			return x, nil
		}
	}
}

func (p *specParser) parseUnary() (Expr, error) {
	if p.accept("!") {
		x, err := p.parseUnary()
		if err != nil {
			return nil, err
		}
		return &EUnary{"!", x}, nil
	}
	if p.accept("-") {
		x, err := p.parseUnary()
		if err != nil {
			return nil, err
		}
		return &EUnary{"-", x}, nil
	}
	return p.parsePostfix()
}

func (p *specParser) parsePostfix() (Expr, error) {
	x, err := p.parsePrimary()
	if err != nil {
		return nil, err
	}
	for {
		switch {
		case p.accept("."):
			n := p.next()
			if n.kind != "ident" {
				return nil, fmt.Errorf("expected selector name, got %q", n.text)
			}
			x = &ESel{x, n.text}
		case p.accept("["):
			var lo, hi Expr
			if !p.isOp(":") {
				lo, err = p.parseExpr()
				if err != nil {
					return nil, err
				}
			}
			if p.accept(":") {
				if !p.isOp("]") {
					hi, err = p.parseExpr()
					if err != nil {
						return nil, err
					}
				}
				if err := p.expect("]"); err != nil {
					return nil, err
				}
				x = &ESlice{x, lo, hi}
			} else {
				if err := p.expect("]"); err != nil {
					return nil, err
				}
				x = &EIndex{x, lo}
			}
		case p.accept("("):
			var args []Expr
			for !p.isOp(")") {
				a, err := p.parseExpr()
				if err != nil {
					return nil, err
				}
				args = append(args, a)
				if !p.accept(",") {
					break
				}
			}
			if err := p.expect(")"); err != nil {
				return nil, err
			}
			if id, ok := x.(*EIdent); ok && id.Name == "old" && len(args) == 1 {
				x = &EOld{args[0]}
			} else {
				x = &ECall{x, args}
			}
		default:
			return x, nil
		}
	}
}

func (p *specParser) parsePrimary() (Expr, error) {
	t := p.next()
	switch t.kind {
	case "int":
		return &EInt{strings.ReplaceAll(t.text, "_", "")}, nil
	case "str":
		return &EStr{t.text}, nil
	case "ident":
		switch t.text {
		case "true":
			return &EBool{true}, nil
		case "false":
			return &EBool{false}, nil
		case "nil":
			return &ENil{}, nil
		}
		return &EIdent{t.text}, nil
	case "op":
		if t.text == "(" {
			e, err := p.parseExpr()
			if err != nil {
				return nil, err
			}
			if err := p.expect(")"); err != nil {
				return nil, err
			}
			return e, nil
		}
	}
	return nil, fmt.Errorf("unexpected token %q", t.text)
}

// ---------------------------------------------------------------------------
// Contract file model

type Clause struct {
	Text string
	E    Expr
	Name string // optional label
}

type LoopSpec struct {
	Invariants []Clause
	Hints      []Clause // proved at every back edge (may use head(e)), then available to the inv-keep goals
}

type ParamSpec struct {
	Name     string
	Requires []Clause
	Ensures  []Clause
}

type FuncSpec struct {
	Pkg        string // package path
	Name       string // RowIDFromBinary, (RowID).Verify, (*RowID).ReadFrom, (*Getter).GetSamples$1
	Extern     bool
	Props      []string
	Requires   []Clause
	Ensures    []Clause
	Checks     []Clause // checked at every return like ensures, may mention locals, not exported to callers
	Effects    []Clause // ghost effects ($Name := expr) applied at call sites; Name holds the target
	Havocs     []string // ghosts the function may change in a way only its ensures clauses describe
	CallPres   []Clause // obligations at call sites inside this function; Name holds the callee fragment
	OnlyCalls  []OnlyCall // external-effect frame: callees matching Frag must be one of Allowed
	Loops      map[int]*LoopSpec
	NoPanic    bool
	NoLiterals bool // the function contains no function literal (what it installs is a named function or method)
	Overflow   bool
	Pure       bool
	Trusted    bool // contract assumed, body not verified (listed)
	NoFrame    bool // no frame obligation (top-level loops)
	Untrusted  []string
	Modifies   []Clause
	Fresh      bool     // result (pointer/slice) is freshly allocated
	Params     []string // extern: parameter names for spec use (recv first)
	Results    []string // names for results (extern)
	Assumes    []Clause // explicit assumptions inside (listed)
	File       string
	Line       int
	NoBody     bool
	Dropped    []string
	ParamSpecs map[string]*ParamSpec
}

type PureFunc struct {
	Name    string
	Params  []QVar
	Ret     string
	Body    Expr // may be nil: uninterpreted
	Text    string
	Pkg     string
	Rec     bool
}

type Axiom struct {
	Name string
	Text string
	E    Expr
	Pkg  string
}

type LemmaStmt struct {
	Kind  string   // let, assume, assert, var
	Names []string // let targets / var names
	Type  string   // var type
	E     Expr
	Text  string
}

type Lemma struct {
	Name  string
	Props []string
	Pkg   string
	E     Clause      // plain formula lemma (may be nil expr when Stmts used)
	Vars  []QVar      // proc lemma parameters
	Stmts []LemmaStmt // proc lemma
	File  string
	Line  int
}

type ConstDef struct {
	Name string
	E    Expr
	Pkg  string
}

type Contracts struct {
	Funcs  map[string]*FuncSpec // key pkgpath + "::" + name
	Pures  map[string]*PureFunc // by name (global namespace)
	Axioms []*Axiom
	Lemmas []*Lemma
	Consts map[string]*ConstDef
	Files  []string
	Guards []GuardEntry
	Locks  []LockEntry // lock order table: "lock Type.field $Ghost", earlier entries are acquired first
	Perms  []*PermTable
}

// PermTable is a contract on a declaration: the RPC API struct of a module. Every method (function
// field of the Internal struct) must carry one of the four permission levels, and must be at least as
// restricted as the policy says.
type PermTable struct {
	Pkg      string
	Type     string
	Props    []string
	Requires map[string]string // method -> minimum level
	Order    []string
	Closed   bool // every method of the struct must be listed
	Wire     bool // wirenames table: field -> JSON key (instead of method -> permission level)
	File     string
	Line     int
}

// GuardEntry: "guards Type.mutexField field rely <expr over before/after>": state that other goroutines may
// change whenever the mutex is not held - on every acquisition the guarded object is a new value related
// to the last one seen only by the rely condition.
type GuardEntry struct {
	Mutex string // Type.field of the mutex
	Field string // pointer field of the same struct whose pointee is guarded
	Rely  Expr
	Text  string
}

type LockEntry struct {
	Field string // Type.field
	Ghost string // ghost flag name without '$'
}

func newContracts() *Contracts {
	return &Contracts{Funcs: map[string]*FuncSpec{}, Pures: map[string]*PureFunc{}, Consts: map[string]*ConstDef{}}
}

var clauseKeywords = map[string]bool{
	"func": true, "extern": true, "pure": true, "axiom": true, "lemma": true, "const": true,
	"property": true, "requires": true, "ensures": true, "nopanic": true, "overflow": true,
	"untrusted": true, "loop": true, "modifies": true, "assume": true, "trusted": true,
	"fresh": true, "params": true, "results": true, "let": true, "assert": true, "var": true,
	"dropped": true, "param": true, "end": true, "checks": true, "effect": true, "callpre": true, "noframe": true, "lock": true, "permtable": true, "wirenames": true, "guards": true, "require": true, "closed": true, "only": true, "havoc": true, "noliterals": true,
}

// OnlyCall is one `only` clause.
type OnlyCall struct {
	Frag    string
	Allowed map[string]bool
	Text    string
}

// parseContractFile reads a zz_contracts_verif.go file.
func (c *Contracts) parseContractFile(path, pkgPath string) error {
	data, err := os.ReadFile(path)
	if err != nil {
		return err
	}
	c.Files = append(c.Files, path)
	type line struct {
		n    int
		text string
	}
	var lines []line
	for i, l := range strings.Split(string(data), "\n") {
		t := strings.TrimSpace(l)
		if !strings.HasPrefix(t, "//@") {
			continue
		}
		t = strings.TrimSpace(t[3:])
		if t == "" {
			continue
		}
		// strip trailing comment " // ..."
		if k := strings.Index(t, " // "); k >= 0 {
			t = strings.TrimSpace(t[:k])
		}
		first := t
		if k := strings.IndexAny(t, " \t:("); k >= 0 {
			first = t[:k]
		}
		if clauseKeywords[first] || len(lines) == 0 {
			lines = append(lines, line{i + 1, t})
		} else {
			lines[len(lines)-1].text += " " + t
		}
	}
	var cur *FuncSpec
	var curLemma *Lemma
	var curPerm *PermTable
	fail := func(n int, f string, a ...any) error {
		return fmt.Errorf("%s:%d: %s", path, n, fmt.Sprintf(f, a...))
	}
	parseClause := func(n int, s string) (Clause, error) {
		s = strings.TrimSpace(s)
		e, err := parseSpecExpr(s)
		if err != nil {
			return Clause{}, fail(n, "%v", err)
		}
		return Clause{Text: s, E: e}, nil
	}
	for _, l := range lines {
		t := l.text
		kw := t
		rest := ""
		if k := strings.IndexAny(t, " \t"); k >= 0 {
			kw = t[:k]
			rest = strings.TrimSpace(t[k:])
		}
		// "lemma name:" / "axiom name:" have colon attached possibly
		switch kw {
		case "func", "extern":
			curLemma = nil
			curPerm = nil
			name := rest
			cur = &FuncSpec{Pkg: pkgPath, Name: name, Extern: kw == "extern", Loops: map[int]*LoopSpec{}, File: path, Line: l.n, ParamSpecs: map[string]*ParamSpec{}}
			key := pkgPath + "::" + name
			if kw == "extern" && strings.HasPrefix(name, "local ") {
				// "extern local <callee>": an assumed contract that holds for the calls made from this
				// package only (other packages calling the same function do not see it)
				name = strings.TrimSpace(name[len("local "):])
				cur.Name = name
				key = "externlocal::" + pkgPath + "::" + name
			} else if kw == "extern" {
				key = "extern::" + name
				if old, ok := c.Funcs[key]; ok {
					// identical extern declarations in several packages are merged (first wins)
					cur = old
					continue
				}
			}
			if _, dup := c.Funcs[key]; dup {
				return fail(l.n, "duplicate contract for %s", name)
			}
			c.Funcs[key] = cur
		case "property":
			ps := strings.Fields(rest)
			if curPerm != nil {
				curPerm.Props = append(curPerm.Props, ps...)
			} else if curLemma != nil {
				curLemma.Props = append(curLemma.Props, ps...)
			} else if cur != nil {
				cur.Props = append(cur.Props, ps...)
			} else {
				return fail(l.n, "property outside block")
			}
		case "requires", "ensures", "modifies", "assume", "checks":
			if cur == nil {
				return fail(l.n, "%s outside func block", kw)
			}
			cl, err := parseClause(l.n, rest)
			if err != nil {
				return err
			}
			switch kw {
			case "requires":
				cur.Requires = append(cur.Requires, cl)
			case "ensures":
				cur.Ensures = append(cur.Ensures, cl)
			case "checks":
				cur.Checks = append(cur.Checks, cl)
			case "modifies":
				cur.Modifies = append(cur.Modifies, cl)
			case "assume":
				if curLemma != nil {
					curLemma.Stmts = append(curLemma.Stmts, LemmaStmt{Kind: "assume", E: cl.E, Text: cl.Text})
				} else {
					cur.Assumes = append(cur.Assumes, cl)
				}
			}
		case "callpre":
			// callpre <callee name fragment>: <expr>   (obligation at every call whose callee name contains the fragment)
			k := strings.Index(rest, ":")
			if k < 0 || cur == nil {
				return fail(l.n, "bad callpre clause")
			}
			cl, err := parseClause(l.n, rest[k+1:])
			if err != nil {
				return err
			}
			cl.Name = strings.TrimSpace(rest[:k])
			cur.CallPres = append(cur.CallPres, cl)
		case "havoc":
			// havoc $A $B ...   (the function may change these ghosts; its ensures clauses say how)
			if cur == nil {
				return fail(l.n, "havoc outside a function contract")
			}
			for _, f := range strings.Fields(strings.ReplaceAll(rest, ",", " ")) {
				if !strings.HasPrefix(f, "$") {
					return fail(l.n, "havoc takes ghost names")
				}
				cur.Havocs = append(cur.Havocs, f)
			}
		case "only":
			// only <callee name fragment>: M1 M2 ...   (frame on external effects: every call in this
			// function whose callee name contains the fragment must be one of the listed functions/methods)
			k := strings.Index(rest, ":")
			if k < 0 || cur == nil {
				return fail(l.n, "bad only clause")
			}
			oc := OnlyCall{Frag: strings.TrimSpace(rest[:k]), Allowed: map[string]bool{}, Text: rest}
			for _, f := range strings.Fields(strings.ReplaceAll(rest[k+1:], ",", " ")) {
				oc.Allowed[f] = true
			}
			cur.OnlyCalls = append(cur.OnlyCalls, oc)
		case "effect":
			// effect $Ghost := <expr>   (ghost protocol: applied at call sites after the postconditions)
			k := strings.Index(rest, ":=")
			if k < 0 || cur == nil {
				return fail(l.n, "bad effect clause")
			}
			name := strings.TrimSpace(rest[:k])
			if !strings.HasPrefix(name, "$") {
				return fail(l.n, "effect target must be a ghost variable ($Name)")
			}
			cl, err := parseClause(l.n, rest[k+2:])
			if err != nil {
				return err
			}
			cl.Name = name
			cur.Effects = append(cur.Effects, cl)
		case "nopanic":
			cur.NoPanic = true
		case "noliterals":
			cur.NoLiterals = true
		case "overflow":
			cur.Overflow = true
		case "trusted":
			cur.Trusted = true
		case "noframe":
			// top-level event loops: may modify anything; no frame obligation (never a callee of verified code)
			cur.NoFrame = true
		case "fresh":
			cur.Fresh = true
		case "untrusted":
			cur.Untrusted = append(cur.Untrusted, strings.Fields(strings.ReplaceAll(rest, ",", " "))...)
		case "params":
			cur.Params = strings.Fields(strings.ReplaceAll(rest, ",", " "))
		case "results":
			cur.Results = strings.Fields(strings.ReplaceAll(rest, ",", " "))
		case "dropped":
			cur.Dropped = append(cur.Dropped, rest)
		case "param":
			// param <name>: requires|ensures <expr>
			k := strings.Index(rest, ":")
			if k < 0 || cur == nil {
				return fail(l.n, "bad param clause")
			}
			pn := strings.TrimSpace(rest[:k])
			body := strings.TrimSpace(rest[k+1:])
			ps := cur.ParamSpecs[pn]
			if ps == nil {
				ps = &ParamSpec{Name: pn}
				cur.ParamSpecs[pn] = ps
			}
			switch {
			case strings.HasPrefix(body, "requires "):
				cl, err := parseClause(l.n, body[len("requires "):])
				if err != nil {
					return err
				}
				ps.Requires = append(ps.Requires, cl)
			case strings.HasPrefix(body, "ensures "):
				cl, err := parseClause(l.n, body[len("ensures "):])
				if err != nil {
					return err
				}
				ps.Ensures = append(ps.Ensures, cl)
			default:
				return fail(l.n, "bad param clause body %q", body)
			}
		case "loop":
			// loop <n>: invariant <expr>
			k := strings.Index(rest, ":")
			if k < 0 || cur == nil {
				return fail(l.n, "bad loop clause")
			}
			n, err := strconv.Atoi(strings.TrimSpace(rest[:k]))
			if err != nil {
				return fail(l.n, "bad loop ordinal")
			}
			body := strings.TrimSpace(rest[k+1:])
			// `backedge` is `hint` under the name that says what it is when used as a property: an assertion
			// that must hold whenever the loop goes round again (may use head(e): e at this iteration's start)
			isHint := strings.HasPrefix(body, "hint ") || strings.HasPrefix(body, "backedge ")
			if !strings.HasPrefix(body, "invariant ") && !isHint {
				return fail(l.n, "expected invariant, hint or backedge")
			}
			text := strings.TrimPrefix(strings.TrimPrefix(strings.TrimPrefix(body, "invariant "), "hint "), "backedge ")
			cl, err := parseClause(l.n, text)
			if err != nil {
				return err
			}
			ls := cur.Loops[n]
			if ls == nil {
				ls = &LoopSpec{}
				cur.Loops[n] = ls
			}
			if isHint {
				ls.Hints = append(ls.Hints, cl)
			} else {
				ls.Invariants = append(ls.Invariants, cl)
			}
		case "pure":
			if rest == "" {
				if cur == nil {
					return fail(l.n, "pure outside block")
				}
				cur.Pure = true
				continue
			}
			// pure func name(a T, b T) R [= expr]
			pf, err := parsePureFunc(rest)
			if err != nil {
				return fail(l.n, "%v", err)
			}
			pf.Pkg = pkgPath
			if old, dup := c.Pures[pf.Name]; dup {
				if old.Text != pf.Text {
					return fail(l.n, "conflicting pure func %s", pf.Name)
				}
				continue
			}
			c.Pures[pf.Name] = pf
		case "axiom":
			k := strings.Index(rest, ":")
			if k < 0 {
				return fail(l.n, "axiom needs name:")
			}
			cl, err := parseClause(l.n, rest[k+1:])
			if err != nil {
				return err
			}
			name := strings.TrimSpace(rest[:k])
			dup := false
			for _, a := range c.Axioms {
				if a.Name == name {
					if a.Text != cl.Text {
						return fail(l.n, "conflicting axiom %s", name)
					}
					dup = true
				}
			}
			if !dup {
				c.Axioms = append(c.Axioms, &Axiom{Name: name, Text: cl.Text, E: cl.E, Pkg: pkgPath})
			}
		case "lemma":
			cur = nil
			curPerm = nil
			// lemma name: expr      OR   lemma name(x T, y T)   followed by let/assume/assert statements
			if k := strings.Index(rest, ":"); k >= 0 && !strings.Contains(rest[:k], "(") {
				cl, err := parseClause(l.n, rest[k+1:])
				if err != nil {
					return err
				}
				curLemma = &Lemma{Name: strings.TrimSpace(rest[:k]), Pkg: pkgPath, E: cl, File: path, Line: l.n}
			} else {
				k := strings.Index(rest, "(")
				if k < 0 || !strings.HasSuffix(rest, ")") {
					return fail(l.n, "bad lemma header")
				}
				vars, err := parseVarList(rest[k+1 : len(rest)-1])
				if err != nil {
					return fail(l.n, "%v", err)
				}
				curLemma = &Lemma{Name: strings.TrimSpace(rest[:k]), Pkg: pkgPath, Vars: vars, File: path, Line: l.n}
				// a dummy FuncSpec so that "assume" parsing has a cur
				cur = &FuncSpec{Pkg: pkgPath, Name: "lemma$" + curLemma.Name}
			}
			c.Lemmas = append(c.Lemmas, curLemma)
		case "let":
			// let a, b = F(args)
			if curLemma == nil {
				return fail(l.n, "let outside lemma")
			}
			k := strings.Index(rest, "=")
			if k < 0 {
				return fail(l.n, "bad let")
			}
			names := strings.Fields(strings.ReplaceAll(rest[:k], ",", " "))
			cl, err := parseClause(l.n, rest[k+1:])
			if err != nil {
				return err
			}
			curLemma.Stmts = append(curLemma.Stmts, LemmaStmt{Kind: "let", Names: names, E: cl.E, Text: cl.Text})
		case "assert":
			cl, err := parseClause(l.n, rest)
			if err != nil {
				return err
			}
			if curLemma != nil {
				curLemma.Stmts = append(curLemma.Stmts, LemmaStmt{Kind: "assert", E: cl.E, Text: cl.Text})
			} else {
				return fail(l.n, "assert outside lemma")
			}
		case "var":
			if curLemma == nil {
				return fail(l.n, "var outside lemma")
			}
			vars, err := parseVarList(rest)
			if err != nil {
				return fail(l.n, "%v", err)
			}
			for _, v := range vars {
				curLemma.Stmts = append(curLemma.Stmts, LemmaStmt{Kind: "var", Names: []string{v.Name}, Type: v.Type})
			}
		case "permtable":
			cur = nil
			curLemma = nil
			curPerm = &PermTable{Pkg: pkgPath, Type: strings.TrimSpace(rest), Requires: map[string]string{}, File: path, Line: l.n}
			c.Perms = append(c.Perms, curPerm)
		case "wirenames":
			cur = nil
			curLemma = nil
			curPerm = &PermTable{Pkg: pkgPath, Type: strings.TrimSpace(rest), Requires: map[string]string{}, File: path, Line: l.n, Wire: true}
			c.Perms = append(c.Perms, curPerm)
		case "require":
			fs := strings.Fields(rest)
			if curPerm == nil || len(fs) != 2 {
				return fail(l.n, "require <Method> <level> inside a permtable")
			}
			curPerm.Requires[fs[0]] = fs[1]
			curPerm.Order = append(curPerm.Order, fs[0])
		case "closed":
			if curPerm == nil {
				return fail(l.n, "closed outside permtable")
			}
			curPerm.Closed = true
		case "guards":
			// guards Type.mutexField field rely <expr>
			k := strings.Index(rest, " rely ")
			if k < 0 {
				return fail(l.n, "guards Type.mutex field rely <expr>")
			}
			fs := strings.Fields(rest[:k])
			if len(fs) != 2 {
				return fail(l.n, "guards Type.mutex field rely <expr>")
			}
			e, err := parseSpecExpr(strings.TrimSpace(rest[k+6:]))
			if err != nil {
				return fail(l.n, "%v", err)
			}
			c.Guards = append(c.Guards, GuardEntry{Mutex: fs[0], Field: fs[1], Rely: e, Text: strings.TrimSpace(rest)})
		case "lock":
			// lock Type.field $Ghost
			fs := strings.Fields(rest)
			if len(fs) != 2 || !strings.HasPrefix(fs[1], "$") {
				return fail(l.n, "lock Type.field $Ghost")
			}
			c.Locks = append(c.Locks, LockEntry{Field: fs[0], Ghost: fs[1][1:]})
		case "const":
			k := strings.Index(rest, "=")
			if k < 0 {
				return fail(l.n, "bad const")
			}
			cl, err := parseClause(l.n, rest[k+1:])
			if err != nil {
				return err
			}
			name := strings.TrimSpace(rest[:k])
			c.Consts[name] = &ConstDef{Name: name, E: cl.E, Pkg: pkgPath}
		case "end":
			cur = nil
			curLemma = nil
			curPerm = nil
		default:
			return fail(l.n, "unknown clause %q", kw)
		}
	}
	return nil
}

func parseVarList(s string) ([]QVar, error) {
	var out []QVar
	s = strings.TrimSpace(s)
	if s == "" {
		return nil, nil
	}
	var pendingNames []string
	for _, part := range strings.Split(s, ",") {
		fs := strings.Fields(part)
		switch len(fs) {
		case 1:
			pendingNames = append(pendingNames, fs[0])
		case 2:
			for _, n := range pendingNames {
				out = append(out, QVar{n, fs[1]})
			}
			pendingNames = nil
			out = append(out, QVar{fs[0], fs[1]})
		default:
			return nil, fmt.Errorf("bad variable declaration %q", part)
		}
	}
	if len(pendingNames) > 0 {
		return nil, fmt.Errorf("missing type for %v", pendingNames)
	}
	return out, nil
}

func parsePureFunc(s string) (*PureFunc, error) {
	orig := s
	if !strings.HasPrefix(s, "func ") {
		return nil, fmt.Errorf("expected 'pure func'")
	}
	s = strings.TrimSpace(s[5:])
	rec := false
	k := strings.Index(s, "(")
	if k < 0 {
		return nil, fmt.Errorf("bad pure func")
	}
	name := strings.TrimSpace(s[:k])
	depth := 0
	end := -1
	for i := k; i < len(s); i++ {
		if s[i] == '(' {
			depth++
		} else if s[i] == ')' {
			depth--
			if depth == 0 {
				end = i
				break
			}
		}
	}
	if end < 0 {
		return nil, fmt.Errorf("bad pure func params")
	}
	params, err := parseVarList(s[k+1 : end])
	if err != nil {
		return nil, err
	}
	rest := strings.TrimSpace(s[end+1:])
	ret := rest
	var body Expr
	if i := strings.Index(rest, "="); i >= 0 && !strings.HasPrefix(rest[i:], "==") {
		ret = strings.TrimSpace(rest[:i])
		body, err = parseSpecExpr(rest[i+1:])
		if err != nil {
			return nil, err
		}
		if strings.Contains(rest[i+1:], name+"(") {
			rec = true
		}
	}
	return &PureFunc{Name: name, Params: params, Ret: ret, Body: body, Text: orig, Rec: rec}, nil
}

// findContractFiles walks /repo for zz_contracts_verif.go
func findContractFiles(root string) ([]string, error) {
	var out []string
	err := filepath.Walk(root, func(p string, info os.FileInfo, err error) error {
		if err != nil {
			return nil
		}
		if info.IsDir() && (info.Name() == ".git" || info.Name() == "node_modules") {
			return filepath.SkipDir
		}
		if !info.IsDir() && info.Name() == "zz_contracts_verif.go" {
			out = append(out, p)
		}
		return nil
	})
	return out, err
}
