package main

import (
	"os"
	"fmt"
	"go/constant"
	"go/token"
	"go/types"
	"sort"
	"strings"

	"golang.org/x/tools/go/ssa"
)

// ---------------------------------------------------------------------------
// Values, addresses, state

type valKind int

const (
	vTerm valKind = iota
	vAddr
	vTuple
	vFunc
)

type Val struct {
	kind    valKind
	t       Term
	addr    *Addr
	tuple   []Val
	fn      *ssa.Function
	closure *ssa.MakeClosure
}

type addrKind int

const (
	aLocal addrKind = iota
	aHeap
	aElem
	aGlobal
)

type pathStep struct {
	field int  // struct field index, or -1 for array index
	idx   Term // array index when field == -1
}

type Addr struct {
	kind     addrKind
	local    *ssa.Alloc
	global   *ssa.Global
	ref      Term       // aHeap
	slice    Term       // aElem
	idx      Term       // aElem
	rootType types.Type // type of the root object
	path     []pathStep
	typ      types.Type // type of the addressed location
}

type State struct {
	locals map[*ssa.Alloc]Term
	heaps  map[string]Term
	epoch  string // non-empty after a call that may have changed every heap: untouched heaps are no longer the entry version
}

func (s *State) clone() *State {
	n := &State{locals: make(map[*ssa.Alloc]Term, len(s.locals)), heaps: make(map[string]Term, len(s.heaps)), epoch: s.epoch}
	for k, v := range s.locals {
		n.locals[k] = v
	}
	for k, v := range s.heaps {
		n.heaps[k] = v
	}
	return n
}

// ---------------------------------------------------------------------------
// Generator (global) and per-function context

type Obligation struct {
	Name      string
	Kind      string
	Fn        string
	Pkg       string
	Props     []string
	Pos       string
	Body      string // assertions (defs + assumptions + negated goal)
	ExpectSat bool   // cover: must be sat
	PreBody   string // cover after a call: assertions before the call (unsat here excuses an unsat cover)
	Goal      string // human-readable
	fc        *FnCtx
}

type Gen struct {
	u          *Universe
	contracts  *Contracts
	prog       *ssa.Program
	pkgs       map[string]*ssa.Package
	fnOrd      int
	notes      map[string]bool // assumptions / imprecisions discovered while generating
	unmodelled map[string]bool
	errors     []string
	specFuncs  map[*FuncSpec]*ssa.Function
	funcByObj  map[string]*FuncSpec // full name -> spec (in-repo and extern)
	pureDecl   map[string]bool
	axiomTerms []string
	heapSorts  map[string]Sort
	heapRange  map[string][2]string // heaps of small integers: lo, hi of every cell
	aliases    map[string]map[string]string // package path -> import alias -> imported path
	sentinelNewCache map[string]bool
	direct     map[string]map[string]bool   // package path -> paths its source files import (a package loaded from export data lists every package its export data mentions)
	heapCell   map[string]types.Type        // heap key -> Go type of one cell
}

func (g *Gen) note(f string, a ...any) { g.notes[fmt.Sprintf(f, a...)] = true }

type FnCtx struct {
	callPreHit map[int]bool
	pendingHavocAll bool
	onlyHit    map[string]bool
	g       *Gen
	fn      *ssa.Function
	spec    *FuncSpec
	prefix  string
	regs    map[ssa.Value]Val
	defs    []string
	assumes []string
	obls    []*Obligation
	in      map[*ssa.BasicBlock]*State
	out     map[*ssa.BasicBlock]*State
	reach   map[*ssa.BasicBlock]Term
	edges   map[[2]int]Term // (from,to) -> edge condition
	nfresh  int
	entry   *State
	params  map[string]TV
	loops   map[*ssa.BasicBlock]*loopInfo
	defers  []*ssa.Defer
	allocN  int
	retReach []Term
	lemma     *Lemma
	havocState *State
	lemmaVars map[string]TV
	results []*ssa.Alloc // named result allocs in order, if any
	curPos  token.Pos
	nameCnt map[string]int
	failed  string // non-empty: generation aborted (unsupported)
	retN    int
	dropped map[string]bool
}

type loopInfo struct {
	header    *ssa.BasicBlock
	blocks    map[*ssa.BasicBlock]bool
	backPreds []*ssa.BasicBlock
	ordinal   int
	minPos    token.Pos
	modLocals map[*ssa.Alloc]bool
	modHeaps  map[string]bool
	frame     *loopFrame
}

type TV struct {
	t   Term
	typ types.Type // may be nil for untyped
}

func (c *FnCtx) fresh(base string, s Sort) Term {
	c.nfresh++
	name := fmt.Sprintf("%s%s_%d", c.prefix, mangle(base), c.nfresh)
	return c.g.u.declareConst(name, s)
}

func (c *FnCtx) freshTyped(base string, t types.Type) Term {
	v := c.fresh(base, c.g.u.sortOf(t))
	for _, f := range c.g.u.rangeFacts(v, t, 3) {
		c.defs = append(c.defs, f.S)
	}
	return v
}

func (c *FnCtx) assume(guard Term, fact Term) {
	if fact.S == "true" {
		return
	}
	c.assumes = append(c.assumes, implies(guard, fact).S)
}

func (c *FnCtx) define(fact Term) {
	if fact.S == "true" {
		return
	}
	c.defs = append(c.defs, fact.S)
}

func (c *FnCtx) posString(p token.Pos) string {
	if !p.IsValid() {
		p = c.curPos
	}
	if !p.IsValid() {
		return "?"
	}
	pos := c.g.prog.Fset.Position(p)
	return fmt.Sprintf("%s:%d", strings.TrimPrefix(pos.Filename, "/repo/"), pos.Line)
}

func (c *FnCtx) pkgName() string {
	if c.fn != nil && c.fn.Pkg != nil {
		return c.fn.Pkg.Pkg.Name()
	}
	if k := strings.LastIndex(c.spec.Pkg, "/"); k >= 0 {
		return c.spec.Pkg[k+1:]
	}
	return c.spec.Pkg
}

func (c *FnCtx) oblName(kind, detail string) string {
	base := fmt.Sprintf("%s.%s#%s", c.pkgName(), c.spec.Name, kind)
	if detail != "" {
		base += ":" + detail
	}
	c.nameCnt[base]++
	if n := c.nameCnt[base]; n > 1 {
		base = fmt.Sprintf("%s~%d", base, n)
	}
	return base
}

// oblige emits an obligation: under guard (reach), goal must hold.
func (c *FnCtx) oblige(kind, detail string, guard Term, goal Term, human string) {
	if goal.S == "true" {
		// trivially true goals are still counted as discharged obligations, but need no solver
	}
	var b strings.Builder
	for _, d := range c.defs {
		fmt.Fprintf(&b, "(assert %s)\n", d)
	}
	for _, a := range c.assumes {
		fmt.Fprintf(&b, "(assert %s)\n", a)
	}
	fmt.Fprintf(&b, "(assert %s)\n", guard.S)
	fmt.Fprintf(&b, "(assert (not %s))\n", goal.S)
	c.obls = append(c.obls, &Obligation{
		Name: c.oblName(kind, detail), Kind: kind, Fn: c.spec.Name, Pkg: c.spec.Pkg, Props: c.spec.Props,
		Pos: c.posString(token.NoPos), Body: b.String(), Goal: human, fc: c,
	})
}

// cover emits a reachability witness: guard must be satisfiable together with all assumptions.
func (c *FnCtx) cover(detail string, guard Term) {
	var b strings.Builder
	for _, d := range c.defs {
		fmt.Fprintf(&b, "(assert %s)\n", d)
	}
	for _, a := range c.assumes {
		fmt.Fprintf(&b, "(assert %s)\n", a)
	}
	fmt.Fprintf(&b, "(assert %s)\n", guard.S)
	c.obls = append(c.obls, &Obligation{
		Name: c.oblName("cover", detail), Kind: "cover", Fn: c.spec.Name, Pkg: c.spec.Pkg, Props: c.spec.Props,
		Pos: c.posString(token.NoPos), Body: b.String(), ExpectSat: true, Goal: "reachable: " + detail, fc: c,
	})
}

// coverAfterCall emits a cover that is expected to be satisfiable unless the path was already dead
// before the call (PreBody is then unsatisfiable too; decided lazily by the solver driver).
func (c *FnCtx) coverAfterCall(callee string, guard Term, nDefs, nAssumes int, guard0 Term) {
	var b, pb strings.Builder
	for i, d := range c.defs {
		fmt.Fprintf(&b, "(assert %s)\n", d)
		if i < nDefs {
			fmt.Fprintf(&pb, "(assert %s)\n", d)
		}
	}
	for i, a := range c.assumes {
		fmt.Fprintf(&b, "(assert %s)\n", a)
		if i < nAssumes {
			fmt.Fprintf(&pb, "(assert %s)\n", a)
		}
	}
	fmt.Fprintf(&b, "(assert %s)\n", guard.S)
	fmt.Fprintf(&pb, "(assert %s)\n", guard0.S)
	c.obls = append(c.obls, &Obligation{
		Name: c.oblName("cover", "after:"+callee), Kind: "cover", Fn: c.spec.Name, Pkg: c.spec.Pkg, Props: c.spec.Props,
		Pos: c.posString(token.NoPos), Body: b.String(), PreBody: pb.String(), ExpectSat: true,
		Goal: "the contract assumed for " + callee + " does not contradict the path it is called on", fc: c,
	})
}

// ---------------------------------------------------------------------------
// Heaps

func (g *Gen) heapKeyFor(t types.Type) (string, Sort) {
	t = types.Unalias(t)
	if arr, ok := t.Underlying().(*types.Array); ok {
		return g.elemHeapKey(arr.Elem())
	}
	s := g.u.sortOf(t)
	key := "H_" + shortTypeName(t)
	if _, isStruct := t.Underlying().(*types.Struct); !isStruct {
		// non-struct pointees are keyed by underlying type to allow named/unnamed mixing
		key = "H_" + shortTypeName(t.Underlying())
	}
	g.heapSorts[key] = arraySort(SInt, s)
	g.heapCell[key] = t
	if lo, hi, ok := intRange(t); ok {
		g.heapRange[key] = [2]string{bigLit(lo).S, bigLit(hi).S}
	}
	return key, arraySort(SInt, s)
}

func (g *Gen) elemHeapKey(elem types.Type) (string, Sort) {
	elem = types.Unalias(elem)
	s := g.u.sortOf(elem)
	name := shortTypeName(elem)
	if _, isStruct := elem.Underlying().(*types.Struct); !isStruct {
		if _, isNamedSlice := elem.Underlying().(*types.Slice); isNamedSlice {
			name = shortTypeName(elem.Underlying())
		} else if b, ok := elem.Underlying().(*types.Basic); ok {
			name = canonName(b)
		}
	}
	g.heapSorts["E_"+name] = arraySort(SInt, arraySort(SInt, s))
	g.heapCell["E_"+name] = elem
	if lo, hi, ok := intRange(elem); ok {
		g.heapRange["E_"+name] = [2]string{bigLit(lo).S, bigLit(hi).S}
	}
	return "E_" + name, arraySort(SInt, arraySort(SInt, s))
}

func (g *Gen) mapHeapKeys(m *types.Map) (has string, hasSort Sort, val string, valSort Sort) {
	ks := g.u.sortOf(m.Key())
	vs := g.u.sortOf(m.Elem())
	kn := shortTypeName(types.Unalias(m.Key()))
	vn := shortTypeName(types.Unalias(m.Elem()))
	g.heapSorts["MHas_"+kn+"_"+vn] = arraySort(SInt, arraySort(ks, SBool))
	g.heapSorts["MVal_"+kn+"_"+vn] = arraySort(SInt, arraySort(ks, vs))
	g.heapSorts["MLen"] = arraySort(SInt, SInt)
	return "MHas_" + kn + "_" + vn, arraySort(SInt, arraySort(ks, SBool)), "MVal_" + kn + "_" + vn, arraySort(SInt, arraySort(ks, vs))
}

func (c *FnCtx) heap(st *State, key string, s Sort) Term {
	if t, ok := st.heaps[key]; ok {
		return t
	}
	if st.epoch != "" && !strings.HasPrefix(key, "GH_") && key != nextKey && key != ctxDoneKey && key != chLenKey {
		// first touch after a call that may have changed everything: a version of its own
		t := c.g.u.declareConst(fmt.Sprintf("%s%s_%s", c.prefix, key, st.epoch), s)
		c.heapWellTyped(key, t)
		st.heaps[key] = t
		return t
	}
	// first touch: the initial version, shared by every state of this function
	t := c.g.u.declareConst(fmt.Sprintf("%s%s_0", c.prefix, key), s)
	c.heapWellTyped(key, t)
	if c.entry != nil {
		if _, ok := c.entry.heaps[key]; !ok {
			c.entry.heaps[key] = t
		}
	}
	st.heaps[key] = t
	return t
}

// sentinelFact: package-level error variables named Err* are sentinel values created once by
// errors.New / fmt.Errorf and never reassigned: non-nil (listed assumption).
func (c *FnCtx) sentinelFact(name string, t types.Type, v Term) {
	c.sentinelFactPkg("", name, t, v)
}

// sentinelNew: the package initialiser assigns the variable the result of errors.New / fmt.Errorf -
// an allocation of its own, so two such variables never hold the same value (a variable initialised
// from another error variable is an alias and gets no such fact).
func (g *Gen) sentinelNew(pkgPath, name string) bool {
	key := pkgPath + "." + name
	if g.sentinelNewCache == nil {
		g.sentinelNewCache = map[string]bool{}
	}
	if v, ok := g.sentinelNewCache[key]; ok {
		return v
	}
	res := false
	for _, p := range g.prog.AllPackages() {
		if p.Pkg.Path() != pkgPath {
			continue
		}
		gl, _ := p.Members[name].(*ssa.Global)
		init := p.Func("init")
		if gl == nil || init == nil {
			break
		}
		for _, b := range init.Blocks {
			for _, in := range b.Instrs {
				st, ok := in.(*ssa.Store)
				if !ok || st.Addr != gl {
					continue
				}
				val := st.Val
				if mi, ok := val.(*ssa.MakeInterface); ok {
					val = mi.X
				}
				if call, ok := val.(*ssa.Call); ok {
					if f := call.Common().StaticCallee(); f != nil {
						fn := f.String()
						if fn == "errors.New" || fn == "fmt.Errorf" {
							res = true
						}
					}
				}
			}
		}
	}
	g.sentinelNewCache[key] = res
	return res
}

func (c *FnCtx) sentinelFactPkg(pkgPath, name string, t types.Type, v Term) {
	if pkgPath != "" && isErrorType(t) && c.g.sentinelNew(pkgPath, name) {
		c.g.u.declareFun("sentinel_id", []Sort{SInt}, SInt)
		c.define(eq(mk(SInt, "sentinel_id", v), c.g.u.strConst("sentinel:"+pkgPath+"."+name)))
	}
	if isErrorType(t) && (strings.HasPrefix(name, "Err") || (strings.HasPrefix(name, "err") && len(name) > 3 && name[3] >= 'A' && name[3] <= 'Z') || name == "Canceled" || name == "DeadlineExceeded" || name == "EOF") {
		c.define(gt(v, tZero))
		if c.entry != nil {
			// created at package initialisation: older than anything allocated during the call
			c.define(lt(v, c.next(c.entry)))
		}
		c.g.note("sentinel error variables (Err*) are non-nil and never reassigned")
	}
}

// heapWellTyped states that every cell of a freshly introduced heap version holds a value of its type
// (only for heaps of machine integers, where the range matters).
func (c *FnCtx) heapWellTyped(key string, h Term) {
	// allocated cells hold allocated references
	if ct, ok := c.g.heapCell[key]; ok && c.entry != nil {
		bound := c.next(c.curState())
		if strings.HasPrefix(key, "E_") {
			cell := Term{fmt.Sprintf("(select (select %s p!) i!)", h.S), c.g.u.sortOf(ct)}
			if _, isStruct := types.Unalias(ct).Underlying().(*types.Struct); isStruct {
				if fs := c.g.liteRangeFacts(cell, ct, 2); len(fs) > 0 {
					c.define(Term{fmt.Sprintf("(forall ((p! Int) (i! Int)) (! %s :pattern ((select (select %s p!) i!))))", and(fs...).S, h.S), SBool})
				}
			}
			if fs := c.g.refFacts(cell, ct, bound, 2); len(fs) > 0 {
				c.define(Term{fmt.Sprintf("(forall ((p! Int) (i! Int)) (=> (and (< 0 p!) (< p! %s)) %s))", bound.S, and(fs...).S), SBool})
			}
		} else if strings.HasPrefix(key, "H_") {
			cell := Term{fmt.Sprintf("(select %s p!)", h.S), c.g.u.sortOf(ct)}
			if _, isStruct := types.Unalias(ct).Underlying().(*types.Struct); isStruct {
				if fs := c.g.liteRangeFacts(cell, ct, 2); len(fs) > 0 {
					c.define(Term{fmt.Sprintf("(forall ((p! Int)) (! %s :pattern ((select %s p!))))", and(fs...).S, h.S), SBool})
				}
			}
			if fs := c.g.refFacts(cell, ct, bound, 2); len(fs) > 0 {
				c.define(Term{fmt.Sprintf("(forall ((p! Int)) (=> (and (< 0 p!) (< p! %s)) %s))", bound.S, and(fs...).S), SBool})
			}
		}
	}
	r, ok := c.g.heapRange[key]
	if !ok {
		return
	}
	if strings.HasPrefix(key, "E_") {
		c.define(Term{fmt.Sprintf("(forall ((p! Int) (i! Int)) (and (<= %s (select (select %s p!) i!)) (<= (select (select %s p!) i!) %s)))", r[0], h.S, h.S, r[1]), SBool})
	} else if strings.HasPrefix(key, "H_") {
		c.define(Term{fmt.Sprintf("(forall ((p! Int)) (and (<= %s (select %s p!)) (<= (select %s p!) %s)))", r[0], h.S, h.S, r[1]), SBool})
	}
}

// elemArrayWellTyped: same for a fresh element array of heap key.
func (c *FnCtx) elemArrayWellTyped(key string, a Term) {
	r, ok := c.g.heapRange[key]
	if !ok || !strings.HasPrefix(key, "E_") {
		return
	}
	c.define(Term{fmt.Sprintf("(forall ((i! Int)) (and (<= %s (select %s i!)) (<= (select %s i!) %s)))", r[0], a.S, a.S, r[1]), SBool})
}

// ---------------------------------------------------------------------------
// Path read/write over a root term

func (c *FnCtx) readPath(root Term, path []pathStep) Term {
	v := root
	for _, p := range path {
		if p.field >= 0 {
			v = c.g.u.field(v, p.field)
		} else {
			v = sel(v, p.idx)
		}
	}
	return v
}

func (c *FnCtx) writePath(root Term, path []pathStep, nv Term) Term {
	if len(path) == 0 {
		return nv
	}
	p := path[0]
	if p.field >= 0 {
		inner := c.writePath(c.g.u.field(root, p.field), path[1:], nv)
		return c.g.u.withField(root, p.field, inner)
	}
	inner := c.writePath(sel(root, p.idx), path[1:], nv)
	return store(root, p.idx, inner)
}

func (c *FnCtx) load(st *State, a *Addr) Term {
	switch a.kind {
	case aLocal:
		root, ok := st.locals[a.local]
		if !ok {
			root = c.g.u.zero(a.rootType)
			st.locals[a.local] = root
		}
		return c.readPath(root, a.path)
	case aGlobal:
		key := "G_" + mangle(a.global.Pkg.Pkg.Path()+"."+a.global.Name())
		root := c.heap(st, key, c.g.u.sortOf(a.rootType))
		c.sentinelFactPkg(a.global.Pkg.Pkg.Path(), a.global.Name(), a.rootType, root)
		return c.readPath(root, a.path)
	case aHeap:
		key, s := c.g.heapKeyFor(a.rootType)
		h := c.heap(st, key, s)
		if _, isArr := types.Unalias(a.rootType).Underlying().(*types.Array); isArr {
			return c.readPath(sel(h, a.ref), a.path)
		}
		return c.readPath(sel(h, a.ref), a.path)
	case aElem:
		key, s := c.g.elemHeapKey(a.rootType)
		h := c.heap(st, key, s)
		cell := sel(sel(h, sBase(a.slice)), eidx(sOff(a.slice), a.idx))
		return c.readPath(cell, a.path)
	}
	panic("bad addr")
}

func (c *FnCtx) storeTo(st *State, a *Addr, v Term) {
	switch a.kind {
	case aLocal:
		root, ok := st.locals[a.local]
		if !ok {
			root = c.g.u.zero(a.rootType)
		}
		st.locals[a.local] = c.named("loc_"+a.local.Comment, c.writePath(root, a.path, v))
	case aGlobal:
		key := "G_" + mangle(a.global.Pkg.Pkg.Path()+"."+a.global.Name())
		root := c.heap(st, key, c.g.u.sortOf(a.rootType))
		st.heaps[key] = c.writePath(root, a.path, v)
	case aHeap:
		key, s := c.g.heapKeyFor(a.rootType)
		h := c.heap(st, key, s)
		st.heaps[key] = c.named("hs_"+key, store(h, a.ref, c.writePath(sel(h, a.ref), a.path, v)))
	case aElem:
		key, s := c.g.elemHeapKey(a.rootType)
		h := c.heap(st, key, s)
		base := sBase(a.slice)
		i := eidx(sOff(a.slice), a.idx)
		arr := sel(h, base)
		st.heaps[key] = c.named("hs_"+key, store(h, base, store(arr, i, c.writePath(sel(arr, i), a.path, v))))
	}
}

// named introduces a definition for a large term so that later terms refer to it by name (keeps
// queries linear in the number of updates instead of exponential).
func (c *FnCtx) named(base string, t Term) Term {
	if len(t.S) < 400 {
		return t
	}
	n := c.fresh(base, t.Sort)
	c.define(eq(n, t))
	return n
}

// ---------------------------------------------------------------------------
// Loop discovery

func (c *FnCtx) findLoops() {
	c.loops = map[*ssa.BasicBlock]*loopInfo{}
	for _, b := range c.fn.Blocks {
		for _, s := range b.Succs {
			if s.Dominates(b) {
				li := c.loops[s]
				if li == nil {
					li = &loopInfo{header: s, blocks: map[*ssa.BasicBlock]bool{s: true}, modLocals: map[*ssa.Alloc]bool{}, modHeaps: map[string]bool{}}
					c.loops[s] = li
				}
				li.backPreds = append(li.backPreds, b)
				// natural loop: walk predecessors from b until header
				stack := []*ssa.BasicBlock{b}
				for len(stack) > 0 {
					x := stack[len(stack)-1]
					stack = stack[:len(stack)-1]
					if li.blocks[x] {
						continue
					}
					li.blocks[x] = true
					stack = append(stack, x.Preds...)
				}
			}
		}
	}
	var lis []*loopInfo
	for _, li := range c.loops {
		li.minPos = token.Pos(1 << 40)
		for b := range li.blocks {
			for _, in := range b.Instrs {
				if p := in.Pos(); p.IsValid() && p < li.minPos {
					li.minPos = p
				}
			}
		}
		lis = append(lis, li)
	}
	sort.Slice(lis, func(i, j int) bool {
		if lis[i].minPos != lis[j].minPos {
			return lis[i].minPos < lis[j].minPos
		}
		return len(lis[i].blocks) > len(lis[j].blocks)
	})
	for i, li := range lis {
		li.ordinal = i + 1
	}
}

// rootOfAddr follows FieldAddr/IndexAddr chains to the alloc or pointer the address is based on.
func rootOfAddr(v ssa.Value) ssa.Value {
	for {
		switch x := v.(type) {
		case *ssa.FieldAddr:
			v = x.X
		case *ssa.IndexAddr:
			if _, isSlice := x.X.Type().Underlying().(*types.Slice); isSlice {
				return x
			}
			v = x.X
		default:
			return v
		}
	}
}

func (c *FnCtx) computeLoopMods(li *loopInfo) {
	for b := range li.blocks {
		for _, in := range b.Instrs {
			c.instrMods(in, li.modLocals, li.modHeaps)
		}
	}
}

// instrMods records which locals / heaps an instruction may modify.
func (c *FnCtx) instrMods(in ssa.Instruction, locals map[*ssa.Alloc]bool, heaps map[string]bool) {
	g := c.g
	markPtr := func(v ssa.Value) {
		root := rootOfAddr(v)
		switch r := root.(type) {
		case *ssa.Alloc:
			if !r.Heap {
				locals[r] = true
				return
			}
			k, _ := g.heapKeyFor(r.Type().(*types.Pointer).Elem())
			heaps[k] = true
		case *ssa.IndexAddr:
			k, _ := g.elemHeapKey(r.X.Type().Underlying().(*types.Slice).Elem())
			heaps[k] = true
		case *ssa.Global:
			gk := "G_" + mangle(r.Pkg.Pkg.Path()+"."+r.Name())
			g.heapSorts[gk] = g.u.sortOf(r.Type().(*types.Pointer).Elem())
			heaps[gk] = true
		default:
			if pt, ok := root.Type().Underlying().(*types.Pointer); ok {
				k, _ := g.heapKeyFor(pt.Elem())
				heaps[k] = true
			}
		}
	}
	switch x := in.(type) {
	case *ssa.Store:
		markPtr(x.Addr)
	case *ssa.Alloc:
		if !x.Heap {
			locals[x] = true
		} else {
			k, _ := g.heapKeyFor(x.Type().(*types.Pointer).Elem())
			heaps[k] = true
			heaps[nextKey] = true
		}
	case *ssa.MapUpdate:
		if m, ok := x.Map.Type().Underlying().(*types.Map); ok {
			h, _, v, _ := g.mapHeapKeys(m)
			heaps[h] = true
			heaps[v] = true
			heaps["MLen"] = true
		}
	case *ssa.MakeMap:
		heaps[nextKey] = true
		if m, ok := x.Type().Underlying().(*types.Map); ok {
			h, _, v, _ := g.mapHeapKeys(m)
			heaps[h] = true
			heaps[v] = true
			heaps["MLen"] = true
		}
	case *ssa.MakeSlice:
		k, _ := g.elemHeapKey(x.Type().Underlying().(*types.Slice).Elem())
		heaps[k] = true
		heaps[nextKey] = true
	case *ssa.Next:
		if rng, ok := x.Iter.(*ssa.Range); ok && !x.IsString {
			if mt, isMap := rng.X.Type().Underlying().(*types.Map); isMap {
				k := seenKey(rng)
				g.heapSorts[k] = arraySort(g.u.sortOf(mt.Key()), SBool)
				heaps[k] = true
			}
		}
	case *ssa.Send, *ssa.Select:
		g.heapSorts["GH_Sent"] = SBool
		heaps["GH_Sent"] = true
		if sel, ok := in.(*ssa.Select); ok {
			for i := range sel.States {
				k := fmt.Sprintf("GH_Sel%d", i)
				g.heapSorts[k] = SBool
				heaps[k] = true
			}
		}
		g.heapSorts[ctxDoneKey] = arraySort(SInt, SBool)
		heaps[ctxDoneKey] = true
	case *ssa.MakeChan:
		heaps[nextKey] = true
	case *ssa.Call, *ssa.Defer, *ssa.Go:
		heaps[nextKey] = true
		common := in.(ssa.CallInstruction).Common()
		if b, ok := common.Value.(*ssa.Builtin); ok {
			switch b.Name() {
			case "len":
				if _, ok := common.Args[0].Type().Underlying().(*types.Chan); ok {
					g.heapSorts[chLenKey] = arraySort(SInt, SInt)
					heaps[chLenKey] = true
				}
			case "append":
				if sl, ok := common.Args[0].Type().Underlying().(*types.Slice); ok {
					k, _ := g.elemHeapKey(sl.Elem())
					heaps[k] = true
				}
			case "copy":
				if sl, ok := common.Args[0].Type().Underlying().(*types.Slice); ok {
					k, _ := g.elemHeapKey(sl.Elem())
					heaps[k] = true
				}
			case "delete", "clear":
				if m, ok := common.Args[0].Type().Underlying().(*types.Map); ok {
					h, _, v, _ := g.mapHeapKeys(m)
					heaps[h] = true
					heaps[v] = true
					heaps["MLen"] = true
				}
			}
			return
		}
		// callee with contract: its modifies clauses
		if spec := c.calleeSpec(common); spec != nil {
			for k := range c.specModHeaps(spec, common) {
				heaps[k] = true
			}
			for _, ef := range spec.Effects {
				k := "GH_" + ef.Name[1:]
				c.g.heapSorts[k] = SBool
				heaps[k] = true
			}
			for _, h := range spec.Havocs {
				k := "GH_" + h[1:]
				c.g.heapSorts[k] = SBool
				heaps[k] = true
			}
		}
		if ps := c.paramSpecFor(common.Value); ps != nil {
			for _, n := range ghostNamesOf(ps) {
				k := "GH_" + n[1:]
				c.g.heapSorts[k] = SBool
				heaps[k] = true
			}
		}
		// closures passed to unknown callees / go statements may write captured variables
		for _, a := range common.Args {
			c.closureMods(a, locals, heaps, map[*ssa.Function]bool{})
		}
		if mc, ok := common.Value.(*ssa.MakeClosure); ok {
			c.closureMods(mc, locals, heaps, map[*ssa.Function]bool{})
		}
	}
}

// closureMods: if v is a closure, record heap cells of captured variables that its body stores to.
func (c *FnCtx) closureMods(v ssa.Value, locals map[*ssa.Alloc]bool, heaps map[string]bool, seen map[*ssa.Function]bool) {
	mc, ok := v.(*ssa.MakeClosure)
	if !ok {
		return
	}
	fn := mc.Fn.(*ssa.Function)
	if seen[fn] {
		return
	}
	seen[fn] = true
	for _, b := range fn.Blocks {
		for _, in := range b.Instrs {
			switch x := in.(type) {
			case *ssa.Store:
				root := rootOfAddr(x.Addr)
				if fv, ok := root.(*ssa.FreeVar); ok {
					if pt, ok := fv.Type().Underlying().(*types.Pointer); ok {
						k, _ := c.g.heapKeyFor(pt.Elem())
						heaps[k] = true
					}
				} else if ia, ok := root.(*ssa.IndexAddr); ok {
					if sl, ok := ia.X.Type().Underlying().(*types.Slice); ok {
						k, _ := c.g.elemHeapKey(sl.Elem())
						heaps[k] = true
					}
				} else if pt, ok := root.Type().Underlying().(*types.Pointer); ok {
					if _, isAlloc := root.(*ssa.Alloc); !isAlloc {
						k, _ := c.g.heapKeyFor(pt.Elem())
						heaps[k] = true
					}
				}
			case *ssa.MakeClosure:
				c.closureMods(x, locals, heaps, seen)
			}
		}
	}
}

// ---------------------------------------------------------------------------
// Running a function

func (c *FnCtx) val(v ssa.Value) Val {
	if r, ok := c.regs[v]; ok {
		return r
	}
	switch x := v.(type) {
	case *ssa.Const:
		return Val{kind: vTerm, t: c.constTerm(x)}
	case *ssa.Global:
		t := x.Type().(*types.Pointer).Elem()
		return Val{kind: vAddr, addr: &Addr{kind: aGlobal, global: x, rootType: t, typ: t}}
	case *ssa.Function:
		return Val{kind: vFunc, fn: x}
	case *ssa.Builtin:
		return Val{kind: vFunc}
	case *ssa.FreeVar:
		// pointer to a captured variable: an arbitrary non-nil reference, stable per function
		t := c.g.u.declareConst(fmt.Sprintf("%sfv_%s", c.prefix, mangle(x.Name())), SInt)
		c.define(gt(t, tZero))
		if c.entry != nil {
			c.define(lt(t, c.next(c.entry)))
		}
		r := Val{kind: vTerm, t: t}
		c.regs[v] = r
		return r
	}
	// unknown register (unsupported instruction earlier): opaque
	t := c.freshTyped("opaque_"+v.Name(), v.Type())
	r := Val{kind: vTerm, t: t}
	c.regs[v] = r
	return r
}

func (c *FnCtx) term(v ssa.Value) Term {
	r := c.val(v)
	switch r.kind {
	case vTerm:
		return r.t
	case vAddr:
		// an interior pointer used as a value: opaque non-nil reference
		c.g.note("interior pointer used as a value in %s (opaque reference)", c.spec.Name)
		if r.addr.kind == aHeap && len(r.addr.path) == 0 {
			return r.addr.ref
		}
		t := c.fresh("iptr", SInt)
		c.define(gt(t, tZero))
		return t
	case vFunc:
		t := c.fresh("fn", SInt)
		c.define(gt(t, tZero))
		return t
	}
	return c.fresh("tuple", SInt)
}

func (c *FnCtx) constTerm(x *ssa.Const) Term {
	t := types.Unalias(x.Type())
	if x.Value == nil {
		return c.g.u.zero(t)
	}
	switch x.Value.Kind() {
	case constant.Bool:
		if constant.BoolVal(x.Value) {
			return tTrue
		}
		return tFalse
	case constant.Int:
		if isFloat(t) {
			return c.fresh("fconst", SInt)
		}
		bi, ok := constant.Val(x.Value).(interface{ String() string })
		_ = bi
		if i64, exact := constant.Int64Val(x.Value); exact {
			return intLit(i64)
		}
		if ok {
			s := x.Value.ExactString()
			if strings.HasPrefix(s, "-") {
				return Term{"(- " + s[1:] + ")", SInt}
			}
			return Term{s, SInt}
		}
	case constant.String:
		return c.g.u.strConst(constant.StringVal(x.Value))
	case constant.Float:
		return c.fresh("fconst", SInt)
	}
	return c.fresh("const", c.g.u.sortOf(t))
}

// addrOf interprets a pointer-typed SSA value as an address.
func (c *FnCtx) addrOf(v ssa.Value) *Addr {
	r := c.val(v)
	if r.kind == vAddr {
		return r.addr
	}
	pt, ok := v.Type().Underlying().(*types.Pointer)
	if !ok {
		panic(fmt.Sprintf("addrOf non-pointer %s : %s", v.Name(), v.Type()))
	}
	return &Addr{kind: aHeap, ref: c.term(v), rootType: pt.Elem(), typ: pt.Elem()}
}

func (c *FnCtx) abort(f string, a ...any) {
	if c.failed == "" {
		c.failed = fmt.Sprintf(f, a...)
	}
}

// run generates all obligations for the function.
func (c *FnCtx) run() {
	fn := c.fn
	c.findLoops()
	for _, li := range c.loops {
		c.computeLoopMods(li)
	}
	u := c.g.u
	// entry state
	st := &State{locals: map[*ssa.Alloc]Term{}, heaps: map[string]Term{}}
	c.entry = &State{locals: map[*ssa.Alloc]Term{}, heaps: map[string]Term{}}
	c.params = map[string]TV{}
	untrusted := map[string]bool{}
	for _, n := range c.spec.Untrusted {
		untrusted[n] = true
	}
	for _, p := range fn.Params {
		t := c.g.u.declareConst(fmt.Sprintf("%sp_%s", c.prefix, mangle(p.Name())), u.sortOf(p.Type()))
		for _, f := range u.rangeFacts(t, p.Type(), 3) {
			c.define(f)
		}
		if _, isPtr := p.Type().Underlying().(*types.Pointer); isPtr {
			if untrusted[p.Name()] {
				c.define(ge(t, tZero))
			} else {
				c.define(gt(t, tZero))
			}
		}
		for _, f := range c.g.refFacts(t, p.Type(), c.next(st), 3) {
			c.define(f)
		}
		c.regs[p] = Val{kind: vTerm, t: t}
		c.params[p.Name()] = TV{t, p.Type()}
	}
	// a `params` clause renames the parameters for the contract (a parameter named like a type, say);
	// the body view sees the same names as the call sites
	if len(c.spec.Params) == len(fn.Params) {
		for i, p := range fn.Params {
			if _, taken := c.params[c.spec.Params[i]]; !taken {
				c.params[c.spec.Params[i]] = c.params[p.Name()]
			}
		}
	}
	for _, fv := range fn.FreeVars {
		r := c.val(fv)
		// captured variable x is visible in specs by name, as the pointee value at entry (via load at use)
		_ = r
	}
	if c.spec.NoLiterals {
		for _, af := range fn.AnonFuncs {
			c.oblige("noliterals", af.Name(), tTrue, tFalse, "function literal "+af.Name()+" in a function whose contract allows none: what it hands on must be a named function or method")
		}
	}
	// requires
	reach0 := tTrue
	env := c.envFor(st, st)
	for i, cl := range c.spec.Requires {
		tv, err := c.evalSpec(cl.E, env)
		if err != nil {
			c.abort("requires %d: %v", i+1, err)
			return
		}
		c.assumes = append(c.assumes, tv.t.S)
	}
	for i, cl := range c.spec.Assumes {
		tv, err := c.evalSpec(cl.E, env)
		if err != nil {
			c.abort("assume %d: %v", i+1, err)
			return
		}
		c.assumes = append(c.assumes, tv.t.S)
		c.g.note("explicit assume in %s: %s", c.spec.Name, cl.Text)
	}
	c.cover("entry", reach0)

	// topological order ignoring back edges: reverse postorder over forward edges
	order := c.topoOrder()
	c.in[fn.Blocks[0]] = st
	c.reach[fn.Blocks[0]] = reach0
	// $Sel<i> describes the selects of this activation: no case has been taken yet
	for _, b := range fn.Blocks {
		for _, in := range b.Instrs {
			if sel, ok := in.(*ssa.Select); ok {
				for i := range sel.States {
					c.setGhost(c.in[fn.Blocks[0]], fmt.Sprintf("Sel%d", i), tFalse)
				}
			}
		}
	}
	for _, b := range order {
		if c.failed != "" {
			return
		}
		c.execBlock(b)
	}
	// vacuity guard: some return must be reachable under all assumptions made along the way
	if len(c.retReach) > 0 {
		c.cover("some-return", or(c.retReach...))
	}
	// vacuity guard: a callpre clause that matches no call site checks nothing
	for _, oc := range c.spec.OnlyCalls {
		if !c.onlyHit[oc.Frag] && len(oc.Allowed) > 0 {
			c.abort("only clause (%s) matches no call site", oc.Frag)
		}
	}
	for i, cp := range c.spec.CallPres {
		if !c.callPreHit[i] {
			c.abort("callpre %d (%s) matches no call site", i+1, cp.Name)
		}
	}
}

func (c *FnCtx) topoOrder() []*ssa.BasicBlock {
	seen := map[*ssa.BasicBlock]bool{}
	var post []*ssa.BasicBlock
	var dfs func(b *ssa.BasicBlock)
	dfs = func(b *ssa.BasicBlock) {
		seen[b] = true
		for _, s := range b.Succs {
			if s.Dominates(b) { // back edge
				continue
			}
			if !seen[s] {
				dfs(s)
			}
		}
		post = append(post, b)
	}
	dfs(c.fn.Blocks[0])
	for i, j := 0, len(post)-1; i < j; i, j = i+1, j-1 {
		post[i], post[j] = post[j], post[i]
	}
	return post
}

// mergeStates merges predecessor out-states along forward edges into a block's in-state.
func (c *FnCtx) mergeStates(b *ssa.BasicBlock, preds []*ssa.BasicBlock) (*State, Term) {
	type inc struct {
		st   *State
		cond Term
	}
	var incs []inc
	for _, p := range preds {
		ps := c.out[p]
		if ps == nil {
			continue // unreachable predecessor (e.g. after panic) or not processed
		}
		e, ok := c.edges[[2]int{p.Index, b.Index}]
		if !ok {
			continue
		}
		incs = append(incs, inc{ps, e})
	}
	if len(incs) == 0 {
		return nil, tFalse
	}
	if len(incs) == 1 {
		return incs[0].st.clone(), incs[0].cond
	}
	var conds []Term
	for _, i := range incs {
		conds = append(conds, i.cond)
	}
	reach := c.fresh(fmt.Sprintf("reach_b%d", b.Index), SBool)
	c.define(eq(reach, or(conds...)))
	res := &State{locals: map[*ssa.Alloc]Term{}, heaps: map[string]Term{}}
	// locals: union of keys
	lkeys := map[*ssa.Alloc]bool{}
	for _, i := range incs {
		for k := range i.st.locals {
			lkeys[k] = true
		}
	}
	for k := range lkeys {
		// only locals that dominate b matter; others are dead
		if !k.Block().Dominates(b) {
			continue
		}
		same := true
		var first Term
		for n, i := range incs {
			t, ok := i.st.locals[k]
			if !ok {
				t = c.g.u.zero(k.Type().(*types.Pointer).Elem())
			}
			if n == 0 {
				first = t
			} else if t.S != first.S {
				same = false
			}
		}
		if same {
			res.locals[k] = first
			continue
		}
		m := c.fresh("m_"+k.Comment, first.Sort)
		for _, i := range incs {
			t, ok := i.st.locals[k]
			if !ok {
				t = c.g.u.zero(k.Type().(*types.Pointer).Elem())
			}
			c.define(implies(i.cond, eq(m, t)))
		}
		res.locals[k] = m
	}
	hkeys := map[string]bool{}
	for n, i := range incs {
		for k := range i.st.heaps {
			hkeys[k] = true
		}
		if n == 0 {
			res.epoch = i.st.epoch
		} else if i.st.epoch != res.epoch {
			// paths with and without an everything-changing call meet: untouched heaps get a new version
			c.nfresh++
			res.epoch = fmt.Sprintf("m%d", c.nfresh)
		}
	}
	for _, k := range sortedKeys(hkeys) {
		same := true
		var first Term
		var terms []Term
		for n, i := range incs {
			t, ok := i.st.heaps[k]
			if !ok {
				if i.st.epoch != "" {
					t = c.heap(i.st, k, c.g.heapSorts[k])
				} else {
					t = c.entry.heaps[k]
				}
			}
			terms = append(terms, t)
			if n == 0 {
				first = t
			} else if t.S != first.S {
				same = false
			}
		}
		if same {
			res.heaps[k] = first
			continue
		}
		m := c.fresh("m_"+k, first.Sort)
		for n, i := range incs {
			c.define(implies(i.cond, eq(m, terms[n])))
		}
		res.heaps[k] = m
	}
	return res, reach
}

func (c *FnCtx) execBlock(b *ssa.BasicBlock) {
	var st *State
	var reach Term
	if b.Index == 0 {
		st, reach = c.in[b], c.reach[b]
	} else if li, isHeader := c.loops[b]; isHeader {
		var fwd []*ssa.BasicBlock
		for _, p := range b.Preds {
			if !li.blocks[p] {
				fwd = append(fwd, p)
			}
		}
		entrySt, entryReach := c.mergeStates(b, fwd)
		if entrySt == nil {
			return
		}
		st, reach = c.enterLoop(li, entrySt, entryReach)
	} else {
		st, reach = c.mergeStates(b, b.Preds)
		if st == nil {
			return // unreachable
		}
	}
	if c.failed != "" {
		return
	}
	c.in[b] = st.clone()
	c.reach[b] = reach
	cur := st
	alive := true
	for _, in := range b.Instrs {
		if p := in.Pos(); p.IsValid() {
			c.curPos = p
		}
		if !c.execInstr(b, in, cur, &reach) {
			alive = false
			break
		}
		if c.failed != "" {
			return
		}
	}
	if !alive {
		return
	}
	c.out[b] = cur
	if os.Getenv("GOVC_DEBUG_GHOST") != "" {
		fmt.Fprintf(os.Stderr, "block %d out: %s = %v\n", b.Index, os.Getenv("GOVC_DEBUG_GHOST"), cur.heaps[os.Getenv("GOVC_DEBUG_GHOST")])
	}
}

// enterLoop checks invariants on entry, havocs modified state, assumes invariants.
func (c *FnCtx) enterLoop(li *loopInfo, entry *State, entryReach Term) (*State, Term) {
	ls := c.spec.Loops[li.ordinal]
	name := fmt.Sprintf("loop%d", li.ordinal)
	// entry check
	if ls != nil {
		env := c.envFor(entry, c.entry)
		env.header = li.header
		for i, cl := range ls.Invariants {
			tv, err := c.evalSpec(cl.E, env)
			if err != nil {
				c.abort("%s invariant %d: %v", name, i+1, err)
				return nil, tFalse
			}
			c.oblige("inv-entry", fmt.Sprintf("%s.%d", name, i+1), entryReach, tv.t, "on entry: "+cl.Text)
		}
	}
	// havoc
	st := entry.clone()
	for a := range li.modLocals {
		if !a.Block().Dominates(li.header) || a.Block() == li.header && false {
			continue
		}
		if _, ok := st.locals[a]; !ok && !a.Block().Dominates(li.header) {
			continue
		}
		if li.blocks[a.Block()] && a.Block() != li.header {
			continue // declared inside the loop: re-initialised on every iteration
		}
		st.locals[a] = c.freshTyped("h_"+a.Comment, a.Type().(*types.Pointer).Elem())
		// the hidden counters go/ssa introduces for range loops start at -1 (slices, arrays) or 0
		// (integers) and are only ever incremented by one at the loop head: a lower bound by construction
		switch a.Comment {
		case "rangeindex":
			c.define(ge(st.locals[a], intLit(-1)))
		case "rangeint.iter":
			c.define(ge(st.locals[a], tZero))
		}
	}
	// NEXT first, so that the heap versions introduced below are bounded by the loop-head NEXT
	lf := c.computeLoopFrame(li)
	li.frame = lf
	preNext := c.next(entry)
	if li.modHeaps[nextKey] {
		before := c.next(st)
		c.next(c.entry)
		st.heaps[nextKey] = c.fresh("h_NEXT", SInt)
		c.define(ge(st.heaps[nextKey], before))
	}
	c.havocState = st
	defer func() { c.havocState = nil }()
	for _, k := range sortedKeys(li.modHeaps) {
		srt, ok := c.g.heapSorts[k]
		if !ok {
			c.abort("internal: unknown heap sort for %s", k)
			return nil, tFalse
		}
		if k == nextKey {
			continue
		}
		c.heap(c.entry, k, srt) // make sure version 0 exists
		pre := c.heap(entry, k, srt)
		st.heaps[k] = c.fresh("h_"+k, srt)
		c.heapWellTyped(k, st.heaps[k])
		if strings.HasPrefix(k, "H_") || strings.HasPrefix(k, "E_") || strings.HasPrefix(k, "M") {
			if targets, ok := c.preciseTargets(li, lf, k, entry); ok {
				c.define(frameFact(st.heaps[k], pre, preNext, targets))
				// fields of the written objects that no store in the loop touches keep their value
				if ct, isH := c.g.heapCell[k]; isH && strings.HasPrefix(k, "H_") && !lf.wholeWrite[k] {
					if stt, isStruct := types.Unalias(ct).Underlying().(*types.Struct); isStruct {
						for _, t := range targets {
							for f := 0; f < stt.NumFields(); f++ {
								if !lf.fieldWrites[k][f] {
									c.define(eq(c.g.u.field(sel(st.heaps[k], t), f), c.g.u.field(sel(pre, t), f)))
								}
							}
						}
					}
				}
			}
		}
	}
	// havocked locals hold allocated references
	for a := range li.modLocals {
		if t, ok := st.locals[a]; ok {
			for _, f := range c.g.refFacts(t, a.Type().(*types.Pointer).Elem(), c.next(st), 3) {
				c.define(f)
			}
		}
	}
	reach := c.fresh("reach_"+name, SBool)
	inv := tTrue
	if ls != nil {
		env := c.envFor(st, c.entry)
		env.header = li.header
		var parts []Term
		for i, cl := range ls.Invariants {
			tv, err := c.evalSpec(cl.E, env)
			if err != nil {
				c.abort("%s invariant %d: %v", name, i+1, err)
				return nil, tFalse
			}
			parts = append(parts, tv.t)
		}
		inv = and(parts...)
	}
	// one direction only: reach is used positively (as a hypothesis), and keeping the quantified
	// invariant out of an equivalence lets the solvers treat it as an ordinary assumption
	c.define(implies(reach, entryReach))
	c.define(implies(reach, inv))
	c.cover(name+"-head", reach)
	return st, reach
}

func (c *FnCtx) checkBackEdge(li *loopInfo, st *State, cond Term) {
	ls := c.spec.Loops[li.ordinal]
	if ls == nil {
		return
	}
	name := fmt.Sprintf("loop%d", li.ordinal)
	env := c.envFor(st, c.entry)
	env.header = li.header
	env.head = c.in[li.header]
	for i, cl := range ls.Hints {
		tv, err := c.evalSpec(cl.E, env)
		if err != nil {
			c.abort("%s hint %d: %v", name, i+1, err)
			return
		}
		c.oblige("hint", fmt.Sprintf("%s.%d", name, i+1), cond, tv.t, "hint: "+cl.Text)
		c.assume(cond, tv.t)
	}
	for i, cl := range ls.Invariants {
		tv, err := c.evalSpec(cl.E, env)
		if err != nil {
			c.abort("%s invariant %d: %v", name, i+1, err)
			return
		}
		c.oblige("inv-keep", fmt.Sprintf("%s.%d", name, i+1), cond, tv.t, "preserved: "+cl.Text)
	}
}

func (c *FnCtx) setEdge(from, to *ssa.BasicBlock, cond Term, st *State) {
	if li, ok := c.loops[to]; ok && li.blocks[from] {
		c.checkBackEdge(li, st, cond)
		return
	}
	c.edges[[2]int{from.Index, to.Index}] = cond
}
