package main

import (
	"sort"
	"os"
	"fmt"
	"go/token"
	"go/types"
	"math/big"
	"strings"

	"golang.org/x/tools/go/ssa"
)

func (c *FnCtx) setReg(v ssa.Value, t Term) { c.regs[v] = Val{kind: vTerm, t: t} }

// safety: in nopanic functions emit an obligation, otherwise assume (a panic ends the path).
func (c *FnCtx) safety(kind string, reach *Term, cond Term, human string) {
	if cond.S == "true" {
		return
	}
	if c.spec.NoPanic {
		c.oblige(kind, c.posString(token.NoPos), *reach, cond, human)
	}
	// after the check the path continues only if cond holds
	nr := c.fresh("reach_ok", SBool)
	c.define(eq(nr, and(*reach, cond)))
	*reach = nr
}

func (c *FnCtx) nilCheck(reach *Term, a *Addr) {
	switch a.kind {
	case aHeap:
		c.safety("nil", reach, not(eq(a.ref, tZero)), "nil dereference")
	}
}

// execInstr returns false when the block ends without successors being set (return/panic).
func (c *FnCtx) execInstr(b *ssa.BasicBlock, in ssa.Instruction, st *State, reach *Term) bool {
	u := c.g.u
	switch x := in.(type) {
	case *ssa.DebugRef:
		return true
	case *ssa.Alloc:
		et := x.Type().(*types.Pointer).Elem()
		if !x.Heap {
			c.regs[x] = Val{kind: vAddr, addr: &Addr{kind: aLocal, local: x, rootType: et, typ: et}}
			st.locals[x] = u.zero(et)
			return true
		}
		ref := c.allocRef(st)
		c.setReg(x, ref)
		a := &Addr{kind: aHeap, ref: ref, rootType: et, typ: et}
		c.storeTo(st, a, u.zero(et))
		return true
	case *ssa.Store:
		a := c.addrOf(x.Addr)
		c.nilCheck(reach, a)
		c.storeTo(st, a, c.term(x.Val))
		return true
	case *ssa.UnOp:
		switch x.Op {
		case token.MUL:
			a := c.addrOf(x.X)
			c.nilCheck(reach, a)
			v := c.load(st, a)
			// type facts of loaded values
			for _, f := range u.rangeFacts(v, x.Type(), 1) {
				c.define(f)
			}
			c.assumeRefs(v, x.Type(), st)
			c.setReg(x, v)
		case token.NOT:
			c.setReg(x, not(c.term(x.X)))
		case token.SUB:
			r := sub(tZero, c.term(x.X))
			if isUnsigned(x.Type()) {
				r = wrapTo(r, x.Type())
			}
			c.setReg(x, r)
		case token.XOR:
			// ^x = -x-1 for signed; max-x for unsigned
			if isUnsigned(x.Type()) {
				_, hi, _ := intRange(x.Type())
				c.setReg(x, sub(bigLit(hi), c.term(x.X)))
			} else {
				c.setReg(x, sub(sub(tZero, c.term(x.X)), intLit(1)))
			}
		case token.ARROW:
			// channel receive: arbitrary value
			c.g.note("channel receive in %s modelled as an arbitrary value", c.spec.Name)
			if x.CommaOk {
				tup := x.Type().(*types.Tuple)
				c.regs[x] = Val{kind: vTuple, tuple: []Val{
					{kind: vTerm, t: c.freshTyped("recv", tup.At(0).Type())},
					{kind: vTerm, t: c.fresh("recvok", SBool)}}}
			} else {
				c.setReg(x, c.freshTyped("recv", x.Type()))
			}
		default:
			c.abort("unsupported unop %s", x.Op)
		}
		return true
	case *ssa.BinOp:
		c.setReg(x, c.binop(x, reach))
		return true
	case *ssa.FieldAddr:
		base := c.addrOf(x.X)
		st0 := types.Unalias(base.typ).Underlying().(*types.Struct)
		na := *base
		na.path = append(append([]pathStep{}, base.path...), pathStep{field: x.Field})
		na.typ = st0.Field(x.Field).Type()
		c.regs[x] = Val{kind: vAddr, addr: &na}
		// a nil base panics at FieldAddr time in Go only on use; we check at load/store
		return true
	case *ssa.Field:
		c.setReg(x, u.field(c.term(x.X), x.Field))
		return true
	case *ssa.IndexAddr:
		idx := c.term(x.Index)
		switch xt := x.X.Type().Underlying().(type) {
		case *types.Slice:
			s := c.term(x.X)
			c.safety("bounds", reach, and(le(tZero, idx), lt(idx, sLen(s))), fmt.Sprintf("index %s in range of %s", x.Index.Name(), x.X.Name()))
			c.regs[x] = Val{kind: vAddr, addr: &Addr{kind: aElem, slice: s, idx: idx, rootType: xt.Elem(), typ: xt.Elem()}}
		case *types.Pointer:
			arr := xt.Elem().Underlying().(*types.Array)
			base := c.addrOf(x.X)
			c.safety("bounds", reach, and(le(tZero, idx), lt(idx, intLit(arr.Len()))), "array index in range")
			if base.kind == aHeap && len(base.path) == 0 {
				// pointer to array: elements live in the element heap, addressed like a slice (base,0)
				s := mkSlice(base.ref, tZero, intLit(arr.Len()), intLit(arr.Len()))
				c.regs[x] = Val{kind: vAddr, addr: &Addr{kind: aElem, slice: s, idx: idx, rootType: arr.Elem(), typ: arr.Elem()}}
			} else {
				na := *base
				na.path = append(append([]pathStep{}, base.path...), pathStep{field: -1, idx: idx})
				na.typ = arr.Elem()
				c.regs[x] = Val{kind: vAddr, addr: &na}
			}
		default:
			c.abort("unsupported IndexAddr on %s", x.X.Type())
		}
		return true
	case *ssa.Index:
		idx := c.term(x.Index)
		switch xt := x.X.Type().Underlying().(type) {
		case *types.Array:
			c.safety("bounds", reach, and(le(tZero, idx), lt(idx, intLit(xt.Len()))), "array index in range")
			c.setReg(x, sel(c.term(x.X), idx))
		default:
			// string index
			s := c.term(x.X)
			c.safety("bounds", reach, and(le(tZero, idx), lt(idx, mk(SInt, "strlen", s))), "string index in range")
			c.g.u.declareFun("strbyte", []Sort{SInt, SInt}, SInt)
			v := mk(SInt, "strbyte", s, idx)
			c.define(and(le(tZero, v), le(v, intLit(255))))
			c.setReg(x, v)
		}
		return true
	case *ssa.Slice:
		c.execSlice(x, st, reach)
		return true
	case *ssa.Extract:
		tv := c.val(x.Tuple)
		if tv.kind != vTuple {
			c.abort("extract from non-tuple %s", x.Tuple.Name())
			return true
		}
		c.regs[x] = tv.tuple[x.Index]
		return true
	case *ssa.Phi:
		// value-context && / || and the like: ite over incoming edges
		var res Term
		first := true
		for i, p := range b.Preds {
			e, ok := c.edges[[2]int{p.Index, b.Index}]
			if !ok {
				continue
			}
			v := c.term(x.Edges[i])
			if first {
				res = v
				first = false
			} else {
				res = ite(e, v, res)
			}
		}
		if first {
			res = c.freshTyped("phi", x.Type())
		}
		c.setReg(x, res)
		return true
	case *ssa.Convert:
		c.setReg(x, c.convert(c.term(x.X), x.X.Type(), x.Type()))
		return true
	case *ssa.ChangeType:
		r := c.val(x.X)
		c.regs[x] = r
		return true
	case *ssa.ChangeInterface:
		c.regs[x] = c.val(x.X)
		return true
	case *ssa.MakeInterface:
		c.setReg(x, c.box(c.valTermForBox(x.X), x.X.Type()))
		return true
	case *ssa.TypeAssert:
		c.execTypeAssert(x, reach)
		return true
	case *ssa.MakeClosure:
		c.regs[x] = Val{kind: vFunc, fn: x.Fn.(*ssa.Function), closure: x}
		return true
	case *ssa.MakeSlice:
		et := x.Type().Underlying().(*types.Slice).Elem()
		ln := c.term(x.Len)
		cp := c.term(x.Cap)
		c.safety("makeslice", reach, and(le(tZero, ln), le(ln, cp)), "make: 0 <= len <= cap")
		base := c.allocRef(st)
		key, hs := c.g.elemHeapKey(et)
		h := c.heap(st, key, hs)
		zeroArr := Term{fmt.Sprintf("((as const %s) %s)", arraySort(SInt, u.sortOf(et)), u.zero(et).S), arraySort(SInt, u.sortOf(et))}
		st.heaps[key] = store(h, base, zeroArr)
		c.setReg(x, mkSlice(base, tZero, ln, cp))
		return true
	case *ssa.MakeMap:
		m := c.allocRef(st)
		mt := x.Type().Underlying().(*types.Map)
		u.declareFun("mtype", []Sort{SInt}, SInt)
		c.define(eq(mk(SInt, "mtype", m), u.typeID(mt)))
		hk, hs, vk, vsrt := c.g.mapHeapKeys(mt)
		h := c.heap(st, hk, hs)
		emptyHas := Term{fmt.Sprintf("((as const %s) false)", arrayElemSort(hs)), arrayElemSort(hs)}
		st.heaps[hk] = store(h, m, emptyHas)
		// an empty map has no key of any value class
		if name, _, cvs, ok := c.g.cntFun(mt); ok {
			vals := sel(c.heap(st, vk, vsrt), m)
			c.define(Term{fmt.Sprintf("(forall ((cv! %s)) (! (= (%s %s %s cv!) 0) :pattern ((%s %s %s cv!))))", cvs, name, emptyHas.S, vals.S, name, emptyHas.S, vals.S), SBool})
		}
		ml := c.heap(st, "MLen", arraySort(SInt, SInt))
		st.heaps["MLen"] = store(ml, m, tZero)
		c.setReg(x, m)
		return true
	case *ssa.MakeChan:
		m := c.allocRef(st)
		u.declareFun("chancap", []Sort{SInt}, SInt)
		c.define(eq(mk(SInt, "chancap", m), c.term(x.Size)))
		c.setReg(x, m)
		return true
	case *ssa.Lookup:
		c.execLookup(x, st, reach)
		return true
	case *ssa.MapUpdate:
		mt := x.Map.Type().Underlying().(*types.Map)
		m := c.term(x.Map)
		k := c.term(x.Key)
		v := c.term(x.Value)
		hk, hs, vk, vs := c.g.mapHeapKeys(mt)
		c.safety("nilmap", reach, not(eq(m, tZero)), "assignment to entry in nil map")
		has := c.heap(st, hk, hs)
		vals := c.heap(st, vk, vs)
		ml := c.heap(st, "MLen", arraySort(SInt, SInt))
		was := sel(sel(has, m), k)
		st.heaps["MLen"] = store(ml, m, ite(was, sel(ml, m), add(sel(ml, m), intLit(1))))
		newHasArr := c.named("mh", store(sel(has, m), k, tTrue))
		newValArr := c.named("mv", store(sel(vals, m), k, v))
		c.mapCountFact(mt, sel(has, m), sel(vals, m), newHasArr, newValArr, k, &v)
		st.heaps[hk] = store(has, m, newHasArr)
		st.heaps[vk] = store(vals, m, newValArr)
		return true
	case *ssa.Range:
		c.execRange(x, st)
		return true
	case *ssa.Next:
		c.execNext(x, st, reach)
		return true
	case *ssa.Call:
		c.execCall(x, x.Common(), st, reach, false)
		return true
	case *ssa.Defer:
		c.defers = append(c.defers, x)
		return true
	case *ssa.RunDefers:
		c.runDefers(b, st, reach)
		return true
	case *ssa.Go:
		c.g.note("go statement in %s: goroutine body not modelled (captured variables it writes are havocked)", c.spec.Name)
		c.havocClosureWrites(x.Common(), st)
		return true
	case *ssa.Send:
		c.g.note("channel send: the ghost flag $Sent is set, the channel itself is not modelled")
		c.sendObligations(x, st, reach)
		c.setGhost(st, "Sent", tTrue)
		return true
	case *ssa.Select:
		c.execSelect(x, st)
		return true
	case *ssa.Jump:
		c.setEdge(b, b.Succs[0], *reach, st)
		return true
	case *ssa.If:
		cond := c.term(x.Cond)
		c.setEdge(b, b.Succs[0], and(*reach, cond), st)
		c.setEdge(b, b.Succs[1], and(*reach, not(cond)), st)
		return true
	case *ssa.Return:
		c.execReturn(x, st, *reach)
		return false
	case *ssa.Panic:
		if c.spec.NoPanic {
			c.oblige("nopanic", c.posString(x.Pos()), *reach, tFalse, "explicit panic unreachable")
		}
		return false
	case *ssa.SliceToArrayPointer:
		s := c.term(x.X)
		c.setReg(x, sBase(s))
		c.g.note("slice-to-array-pointer conversion in %s: offset ignored", c.spec.Name)
		return true
	case *ssa.MultiConvert:
		c.setReg(x, c.freshTyped("mconv", x.Type()))
		return true
	}
	c.abort("unsupported instruction %T", in)
	return true
}

func (c *FnCtx) valTermForBox(v ssa.Value) Term { return c.term(v) }

// box wraps a concrete value into an interface value: non-nil reference with a dynamic type.
func (c *FnCtx) box(v Term, t types.Type) Term {
	u := c.g.u
	// pointers boxed into interfaces keep their identity when non-nil? A nil *T boxed is a non-nil
	// interface in Go. We model every boxing as an injective function of (type, value).
	name := "box_" + shortTypeName(t)
	u.declareFun(name, []Sort{v.Sort}, SInt)
	r := mk(SInt, name, v)
	c.define(gt(r, tZero))
	c.define(eq(mk(SInt, "typeof", r), u.typeID(t)))
	un := "unbox_" + shortTypeName(t)
	u.declareFun(un, []Sort{SInt}, v.Sort)
	c.define(eq(mk(v.Sort, un, r), v))
	return r
}

func (c *FnCtx) execTypeAssert(x *ssa.TypeAssert, reach *Term) {
	u := c.g.u
	v := c.term(x.X)
	var ok Term
	var res Term
	if _, isIface := x.AssertedType.Underlying().(*types.Interface); isIface {
		// interface-to-interface: succeeds for non-nil values whose dynamic type implements it (unknown)
		okc := c.fresh("implements", SBool)
		ok = and(not(eq(v, tZero)), okc)
		res = v
	} else {
		ok = and(not(eq(v, tZero)), eq(mk(SInt, "typeof", v), u.typeID(x.AssertedType)))
		s := u.sortOf(x.AssertedType)
		un := "unbox_" + shortTypeName(x.AssertedType)
		u.declareFun(un, []Sort{SInt}, s)
		res = mk(s, un, v)
	}
	if x.CommaOk {
		okT := c.fresh("taok", SBool)
		c.define(eq(okT, ok))
		val := ite(okT, res, u.zero(x.AssertedType))
		c.regs[x] = Val{kind: vTuple, tuple: []Val{{kind: vTerm, t: val}, {kind: vTerm, t: okT}}}
		return
	}
	c.safety("typeassert", reach, ok, "type assertion succeeds")
	c.setReg(x, res)
}

func (c *FnCtx) binop(x *ssa.BinOp, reach *Term) Term {
	a, b := c.term(x.X), c.term(x.Y)
	t := x.X.Type()
	switch x.Op {
	case token.EQL:
		return c.equalTerms(a, b, t)
	case token.NEQ:
		return not(c.equalTerms(a, b, t))
	}
	if isString(t) {
		switch x.Op {
		case token.ADD:
			c.g.u.declareFun("strcat", []Sort{SInt, SInt}, SInt)
			r := mk(SInt, "strcat", a, b)
			c.define(eq(mk(SInt, "strlen", r), add(mk(SInt, "strlen", a), mk(SInt, "strlen", b))))
			return r
		case token.LSS, token.LEQ, token.GTR, token.GEQ:
			c.g.u.declareFun("strless", []Sort{SInt, SInt}, SBool)
			switch x.Op {
			case token.LSS:
				return mk(SBool, "strless", a, b)
			case token.GTR:
				return mk(SBool, "strless", b, a)
			case token.LEQ:
				return not(mk(SBool, "strless", b, a))
			default:
				return not(mk(SBool, "strless", a, b))
			}
		}
	}
	if isFloat(t) {
		switch x.Op {
		case token.LSS, token.LEQ, token.GTR, token.GEQ:
			return c.fresh("fcmp", SBool)
		}
		return c.fresh("fop", SInt)
	}
	switch x.Op {
	case token.LSS:
		return lt(a, b)
	case token.LEQ:
		return le(a, b)
	case token.GTR:
		return gt(a, b)
	case token.GEQ:
		return ge(a, b)
	case token.LAND:
		return and(a, b)
	case token.LOR:
		return or(a, b)
	}
	rt := x.Type()
	var r Term
	switch x.Op {
	case token.ADD:
		r = add(a, b)
	case token.SUB:
		r = sub(a, b)
	case token.MUL:
		r = mul(a, b)
	case token.QUO:
		c.safety("div0", reach, not(eq(b, tZero)), "division by zero")
		r = mk(SInt, "godiv", a, b)
		return r
	case token.REM:
		c.safety("div0", reach, not(eq(b, tZero)), "division by zero")
		return mk(SInt, "gomod", a, b)
	case token.SHL:
		if k, ok := constShift(x.Y); ok {
			r = mul(a, bigLit(new(big.Int).Lsh(big.NewInt(1), k)))
		} else {
			r = mk(SInt, "shl", a, b)
		}
	case token.SHR:
		if k, ok := constShift(x.Y); ok && isUnsigned(rt) {
			return mk(SInt, "div", a, bigLit(new(big.Int).Lsh(big.NewInt(1), k)))
		}
		res := mk(SInt, "shr", a, b)
		if lo, hi, ok := intRange(rt); ok {
			c.define(and(le(bigLit(lo), res), le(res, bigLit(hi))))
		}
		return res
	case token.AND:
		if m, ok := constMask(x.Y); ok {
			return mk(SInt, "mod", a, bigLit(m))
		}
		if m, ok := constMask(x.X); ok {
			return mk(SInt, "mod", b, bigLit(m))
		}
		res := mk(SInt, "bitand", a, b)
		if lo, hi, ok := intRange(rt); ok {
			c.define(and(le(bigLit(lo), res), le(res, bigLit(hi))))
		}
		return res
	case token.OR:
		res := mk(SInt, "bitor", a, b)
		if lo, hi, ok := intRange(rt); ok {
			c.define(and(le(bigLit(lo), res), le(res, bigLit(hi))))
		}
		return res
	case token.XOR, token.AND_NOT:
		res := mk(SInt, "bitxor", a, b)
		if lo, hi, ok := intRange(rt); ok {
			c.define(and(le(bigLit(lo), res), le(res, bigLit(hi))))
		}
		return res
	default:
		c.abort("unsupported binop %s", x.Op)
		return tZero
	}
	if isUnsigned(rt) {
		return wrapTo(r, rt)
	}
	if isInteger(rt) {
		if c.spec.Overflow {
			lo, hi, _ := intRange(rt)
			c.oblige("overflow", c.posString(x.Pos()), *reach, and(le(bigLit(lo), r), le(r, bigLit(hi))), "signed arithmetic does not overflow")
		} else {
			c.g.note("signed arithmetic treated as mathematical in %s", c.spec.Name)
		}
	}
	return r
}

func constShift(v ssa.Value) (uint, bool) {
	k, ok := v.(*ssa.Const)
	if !ok || k.Value == nil {
		return 0, false
	}
	n := k.Int64()
	if n < 0 || n > 63 {
		return 0, false
	}
	return uint(n), true
}

// constMask: constant of the form 2^k-1 -> returns 2^k
func constMask(v ssa.Value) (*big.Int, bool) {
	k, ok := v.(*ssa.Const)
	if !ok || k.Value == nil {
		return nil, false
	}
	n := k.Int64()
	if n <= 0 {
		return nil, false
	}
	if (n+1)&n == 0 {
		return big.NewInt(n + 1), true
	}
	return nil, false
}

func (c *FnCtx) equalTerms(a, b Term, t types.Type) Term {
	if _, isSlice := types.Unalias(t).Underlying().(*types.Slice); isSlice {
		// only comparison with nil is legal
		if b.S == nilSlice.S {
			return eq(sBase(a), tZero)
		}
		if a.S == nilSlice.S {
			return eq(sBase(b), tZero)
		}
	}
	return eq(a, b)
}

func (c *FnCtx) convert(v Term, from, to types.Type) Term {
	from, to = types.Unalias(from), types.Unalias(to)
	switch {
	case isInteger(to) && isInteger(from):
		flo, fhi, _ := intRange(from)
		tlo, thi, _ := intRange(to)
		if flo.Cmp(tlo) >= 0 && fhi.Cmp(thi) <= 0 {
			return v
		}
		return wrapTo(v, to)
	case isInteger(to) && isFloat(from), isFloat(to):
		c.g.u.declareFun("fconv", []Sort{SInt}, SInt)
		r := mk(SInt, "fconv", v)
		if lo, hi, ok := intRange(to); ok {
			c.define(and(le(bigLit(lo), r), le(r, bigLit(hi))))
		}
		c.g.note("float conversion in %s treated as uninterpreted", c.spec.Name)
		return r
	case isString(to):
		if _, ok := from.Underlying().(*types.Slice); ok {
			c.g.u.declareFun("bytes2str", []Sort{SInt, SInt, SInt}, SInt)
			// content-dependent; we abstract by a function of the slice header (immutability assumed)
			r := mk(SInt, "bytes2str", sBase(v), sOff(v), sLen(v))
			c.define(eq(mk(SInt, "strlen", r), sLen(v)))
			return r
		}
		if isString(from) {
			return v
		}
		c.g.u.declareFun("int2str", []Sort{SInt}, SInt)
		return mk(SInt, "int2str", v)
	case isString(from):
		if _, ok := to.Underlying().(*types.Slice); ok {
			return c.g.bytesOfString(c, v)
		}
	}
	// pointer <-> unsafe.Pointer etc.
	if v.Sort == c.g.u.sortOf(to) {
		return v
	}
	return c.fresh("conv", c.g.u.sortOf(to))
}

func (c *FnCtx) execSlice(x *ssa.Slice, st *State, reach *Term) {
	var lo, hi, mx Term
	hasHi, hasMax := x.High != nil, x.Max != nil
	if x.Low != nil {
		lo = c.term(x.Low)
	} else {
		lo = tZero
	}
	switch xt := x.X.Type().Underlying().(type) {
	case *types.Slice:
		s := c.term(x.X)
		if hasHi {
			hi = c.term(x.High)
		} else {
			hi = sLen(s)
		}
		if hasMax {
			mx = c.term(x.Max)
		} else {
			mx = sCap(s)
		}
		c.safety("bounds", reach, and(le(tZero, lo), le(lo, hi), le(hi, mx), le(mx, sCap(s))), "slice bounds in range")
		base := sBase(s)
		c.setReg(x, mkSlice(base, add(sOff(s), lo), sub(hi, lo), sub(mx, lo)))
	case *types.Pointer:
		arr := xt.Elem().Underlying().(*types.Array)
		n := intLit(arr.Len())
		a := c.addrOf(x.X)
		if hasHi {
			hi = c.term(x.High)
		} else {
			hi = n
		}
		if hasMax {
			mx = c.term(x.Max)
		} else {
			mx = n
		}
		c.safety("bounds", reach, and(le(tZero, lo), le(lo, hi), le(hi, mx), le(mx, n)), "slice bounds in range")
		var base Term
		if a.kind == aHeap && len(a.path) == 0 {
			base = a.ref
		} else {
			// slicing a local array: copy it into a fresh heap object (address-taken arrays are
			// Heap allocs in go/ssa, so this is rare)
			base = c.fresh("arrslice", SInt)
			c.define(gt(base, tZero))
			key, hs := c.g.elemHeapKey(arr.Elem())
			h := c.heap(st, key, hs)
			st.heaps[key] = store(h, base, c.load(st, a))
			c.g.note("slicing a non-heap array in %s: copied", c.spec.Name)
		}
		c.setReg(x, mkSlice(base, lo, sub(hi, lo), sub(mx, lo)))
	default:
		// string
		s := c.term(x.X)
		if hasHi {
			hi = c.term(x.High)
		} else {
			hi = mk(SInt, "strlen", s)
		}
		c.safety("bounds", reach, and(le(tZero, lo), le(lo, hi), le(hi, mk(SInt, "strlen", s))), "string slice bounds in range")
		c.g.u.declareFun("substr", []Sort{SInt, SInt, SInt}, SInt)
		r := mk(SInt, "substr", s, lo, hi)
		c.define(eq(mk(SInt, "strlen", r), sub(hi, lo)))
		c.setReg(x, r)
	}
}

func (c *FnCtx) execLookup(x *ssa.Lookup, st *State, reach *Term) {
	u := c.g.u
	mt, isMap := x.X.Type().Underlying().(*types.Map)
	if !isMap {
		// string index
		s := c.term(x.X)
		idx := c.term(x.Index)
		c.safety("bounds", reach, and(le(tZero, idx), lt(idx, mk(SInt, "strlen", s))), "string index in range")
		u.declareFun("strbyte", []Sort{SInt, SInt}, SInt)
		v := mk(SInt, "strbyte", s, idx)
		c.define(and(le(tZero, v), le(v, intLit(255))))
		c.setReg(x, v)
		return
	}
	m := c.term(x.X)
	k := c.term(x.Index)
	hk, hs, vk, vs := c.g.mapHeapKeys(mt)
	has := sel(sel(c.heap(st, hk, hs), m), k)
	val := sel(sel(c.heap(st, vk, vs), m), k)
	has = and(not(eq(m, tZero)), has)
	res := ite(has, val, u.zero(mt.Elem()))
	for _, f := range u.rangeFacts(val, mt.Elem(), 1) {
		c.define(f)
	}
	if x.CommaOk {
		c.regs[x] = Val{kind: vTuple, tuple: []Val{{kind: vTerm, t: res}, {kind: vTerm, t: has}}}
	} else {
		c.setReg(x, res)
	}
}

// Map iteration: Range creates an iterator with a ghost "seen" set; Next yields an unseen present key.
type mapIter struct {
	m    Term
	mt   *types.Map
	seen *ssa.Alloc // nil; we keep seen as a synthetic local keyed by the Range instruction
}

func (c *FnCtx) execRange(x *ssa.Range, st *State) {
	// iterator identity; per-iteration behaviour is in execNext
	c.regs[x] = Val{kind: vTerm, t: c.fresh("iter", SInt)}
	// ghost seen-set of a map iteration: no key has been produced yet
	if mt, ok := x.X.Type().Underlying().(*types.Map); ok {
		ks := c.g.u.sortOf(mt.Key())
		key := seenKey(x)
		c.g.heapSorts[key] = arraySort(ks, SBool)
		st.heaps[key] = Term{fmt.Sprintf("((as const %s) false)", arraySort(ks, SBool)), arraySort(ks, SBool)}
	}
}

// seenKey names the ghost seen-set of a map range instruction (by its ordinal among the function's
// Range instructions over maps, so that specs can refer to it as seen(n, key)).
func seenKey(x *ssa.Range) string {
	// ordinal in *source* order (block order differs: the range of a loop that follows a loop sits in that
	// loop's exit block, before the blocks of a loop nested in it)
	n := 1
	for _, b := range x.Parent().Blocks {
		for _, in := range b.Instrs {
			if r, ok := in.(*ssa.Range); ok && r != x {
				if _, isMap := r.X.Type().Underlying().(*types.Map); isMap && r.Pos() < x.Pos() {
					n++
				}
			}
		}
	}
	return fmt.Sprintf("SEEN_%d", n)
}

func (c *FnCtx) execNext(x *ssa.Next, st *State, reach *Term) {
	u := c.g.u
	rng, ok := x.Iter.(*ssa.Range)
	if !ok {
		c.abort("next on non-range")
		return
	}
	okT := c.fresh("nextok", SBool)
	if x.IsString {
		c.regs[x] = Val{kind: vTuple, tuple: []Val{{kind: vTerm, t: okT}, {kind: vTerm, t: c.freshTyped("ri", types.Typ[types.Int])}, {kind: vTerm, t: c.freshTyped("rr", types.Typ[types.Int32])}}}
		return
	}
	mt := rng.X.Type().Underlying().(*types.Map)
	m := c.term(rng.X)
	k := c.freshTyped("rk", mt.Key())
	hk, hs, vk, vs := c.g.mapHeapKeys(mt)
	has := sel(sel(c.heap(st, hk, hs), m), k)
	val := sel(sel(c.heap(st, vk, vs), m), k)
	// a yielded key is present in the map at this moment (Go guarantees deleted keys are not produced)
	// and has not been produced before; when the iteration ends every present key has been produced
	sk := seenKey(rng)
	ks := u.sortOf(mt.Key())
	seen, okSeen := st.heaps[sk]
	if !okSeen {
		seen = c.heap(st, sk, arraySort(ks, SBool))
	}
	c.define(implies(okT, and(not(eq(m, tZero)), has, not(sel(seen, k)))))
	hasQ := sel(sel(c.heap(st, hk, hs), m), Term{"kq!", ks})
	c.define(implies(not(okT), Term{fmt.Sprintf("(forall ((kq! %s)) (! (=> (and (not (= %s 0)) %s) (select %s kq!)) :pattern ((select %s kq!)) :pattern (%s)))", ks, m.S, hasQ.S, seen.S, seen.S, hasQ.S), SBool}))
	st.heaps[sk] = ite(okT, store(seen, k, tTrue), seen)
	for _, f := range u.rangeFacts(val, mt.Elem(), 1) {
		c.define(f)
	}
	c.g.note("map iteration: every step yields a present key not produced before; at the end all present keys were produced (entries inserted during the iteration may or may not be produced)")
	c.regs[x] = Val{kind: vTuple, tuple: []Val{{kind: vTerm, t: okT}, {kind: vTerm, t: k}, {kind: vTerm, t: val}}}
}

// setGhost assigns a ghost boolean ($Name).
func (c *FnCtx) setGhost(st *State, name string, v Term) {
	k := "GH_" + name
	c.g.heapSorts[k] = SBool
	c.heap(c.entry, k, SBool)
	st.heaps[k] = v
}

func (c *FnCtx) ghost(st *State, name string) Term {
	k := "GH_" + name
	c.g.heapSorts[k] = SBool
	return c.heap(st, k, SBool)
}

// Context cancellation is a monotone ghost set CTXDONE of context references: it can only grow, and it
// may grow at every observation point (Err call, select).
const ctxDoneKey = "CTXDONE"

func (c *FnCtx) ctxDoneSet(st *State) Term {
	c.g.heapSorts[ctxDoneKey] = arraySort(SInt, SBool)
	return c.heap(st, ctxDoneKey, arraySort(SInt, SBool))
}

func (c *FnCtx) ctxAdvance(st *State) Term {
	old := c.ctxDoneSet(st)
	nw := c.fresh("ctxdone", arraySort(SInt, SBool))
	c.define(Term{fmt.Sprintf("(forall ((x! Int)) (! (=> (select %s x!) (select %s x!)) :pattern ((select %s x!))))", old.S, nw.S, old.S), SBool})
	st.heaps[ctxDoneKey] = nw
	return nw
}

// doneCallCtx: if v is the result of ctx.Done() on a context.Context, return the context value.
func doneCallCtx(v ssa.Value) ssa.Value {
	call, ok := v.(*ssa.Call)
	if !ok || !call.Call.IsInvoke() || call.Call.Method.Name() != "Done" {
		return nil
	}
	if n, ok := types.Unalias(call.Call.Value.Type()).(*types.Named); ok && n.Obj().Pkg() != nil && n.Obj().Pkg().Path() == "context" && n.Obj().Name() == "Context" {
		return call.Call.Value
	}
	return nil
}

func (c *FnCtx) execSelect(x *ssa.Select, st *State) {
	// nondeterministic choice; received values arbitrary
	c.g.note("select modelled as a nondeterministic choice with arbitrary received values; a chosen send sets $Sent, the chosen case i sets $Sel<i>, a chosen receive from ctx.Done() means that context is done")
	n := len(x.States)
	idx := c.fresh("selidx", SInt)
	lo := tZero
	if !x.Blocking {
		lo = intLit(-1)
	}
	c.define(and(le(lo, idx), lt(idx, intLit(int64(n)))))
	done := c.ctxAdvance(st)
	sent := c.ghost(st, "Sent")
	for i, s := range x.States {
		chosen := eq(idx, intLit(int64(i)))
		if s.Dir == types.SendOnly {
			sent = ite(chosen, tTrue, sent)
		} else if cv := doneCallCtx(s.Chan); cv != nil {
			c.define(implies(chosen, sel(done, c.term(cv))))
		}
	}
	c.setGhost(st, "Sent", sent)
	// $Sel<i>: the i-th case (in source order) of the most recent select was the one taken
	for i := range x.States {
		c.setGhost(st, fmt.Sprintf("Sel%d", i), eq(idx, intLit(int64(i))))
	}
	tup := []Val{{kind: vTerm, t: idx}, {kind: vTerm, t: c.fresh("selok", SBool)}}
	tt := x.Type().(*types.Tuple)
	for i := 2; i < tt.Len(); i++ {
		tup = append(tup, Val{kind: vTerm, t: c.freshTyped("selrecv", tt.At(i).Type())})
	}
	c.regs[x] = Val{kind: vTuple, tuple: tup}
}

func (c *FnCtx) execReturn(x *ssa.Return, st *State, reach Term) {
	c.retN++
	c.retReach = append(c.retReach, reach)
	var results []TV
	sig := c.fn.Signature
	for i, r := range x.Results {
		results = append(results, TV{c.term(r), sig.Results().At(i).Type()})
	}
	env := c.envFor(st, c.entry)
	c.bindResults(env, sig, c.spec, results)
	if k := os.Getenv("GOVC_DEBUG_GHOST"); k != "" {
		fmt.Fprintf(os.Stderr, "return %d in block %d: %s = %v\n", c.retN, x.Block().Index, k, st.heaps[k])
	}
	for i, cl := range c.spec.Ensures {
		tv, err := c.evalSpec(cl.E, env)
		if err != nil {
			c.abort("ensures %d: %v", i+1, err)
			return
		}
		c.curPos = x.Pos()
		c.oblige("post", fmt.Sprintf("%d@ret%d", i+1, c.retN), reach, tv.t, cl.Text)
	}
	for i, cl := range c.spec.Checks {
		tv, err := c.evalSpec(cl.E, env)
		if err != nil {
			c.abort("checks %d: %v", i+1, err)
			return
		}
		c.curPos = x.Pos()
		c.oblige("check", fmt.Sprintf("%d@ret%d", i+1, c.retN), reach, tv.t, cl.Text)
	}
	c.checkEffects(st, reach, results)
	// frame: heaps not mentioned in modifies are unchanged for pre-existing objects
	c.checkFrame(st, reach, env)
}

// checkEffects: the ghost summary callers rely on is faithful to the body. A ghost the body changes
// must be declared: by `havoc` (then only the ensures clauses describe it), or by an `effect` whose
// expression - over the entry ghost state, the parameters and the results - equals the final value.
// An effect on a ghost the body never touches is the definition of that ghost event.
func (c *FnCtx) checkEffects(st *State, reach Term, results []TV) {
	if c.spec.Trusted || c.fn == nil {
		return
	}
	topLevel := c.spec.NoFrame && len(c.spec.Effects)+len(c.spec.Havocs) == 0
	hav := map[string]bool{}
	for _, h := range c.spec.Havocs {
		hav["GH_"+h[1:]] = true
	}
	eff := map[string]Clause{}
	for _, ef := range c.spec.Effects {
		eff["GH_"+ef.Name[1:]] = ef
	}
	var keys []string
	for k := range st.heaps {
		if strings.HasPrefix(k, "GH_") {
			keys = append(keys, k)
		}
	}
	sort.Strings(keys)
	for _, k := range keys {
		v := st.heaps[k]
		ev := c.heap(c.entry, k, SBool)
		if v.S == ev.S || hav[k] || strings.HasPrefix(k, "GH_Sel") {
			// ($Sel<i> is local to an activation: callers never see it)
			continue
		}
		name := "$" + k[3:]
		if ef, ok := eff[k]; ok {
			env := c.envFor(c.entry, c.entry)
			c.bindResults(env, c.fn.Signature, c.spec, results)
			tv, err := c.evalSpec(ef.E, env)
			if err != nil {
				c.abort("effect %s: %v", name, err)
				return
			}
			c.oblige("effect", fmt.Sprintf("%s@ret%d", name, c.retN), reach, eq(v, tv.t), "declared effect is what the body does: "+name+" := "+ef.Text)
			continue
		}
		if topLevel {
			continue
		}
		c.oblige("effect", fmt.Sprintf("%s@ret%d", name, c.retN), reach, eq(v, ev), "ghost "+name+" is changed by the body but not declared (effect / havoc)")
	}
}

func (c *FnCtx) bindResults(env *Env, sig *types.Signature, spec *FuncSpec, results []TV) {
	n := sig.Results().Len()
	for i := 0; i < n && i < len(results); i++ {
		rv := sig.Results().At(i)
		env.vars[fmt.Sprintf("result%d", i)] = results[i]
		if i == 0 {
			env.vars["result"] = results[i]
		}
		if rv.Name() != "" && rv.Name() != "_" {
			env.vars[rv.Name()] = results[i]
		}
		if i < len(spec.Results) {
			env.vars[spec.Results[i]] = results[i]
		}
		if i == n-1 && isErrorType(rv.Type()) {
			if _, taken := env.vars["err"]; !taken || rv.Name() == "" || rv.Name() == "err" {
				env.vars["err"] = results[i]
			}
		}
	}
}

func isErrorType(t types.Type) bool {
	n, ok := types.Unalias(t).(*types.Named)
	return ok && n.Obj().Pkg() == nil && n.Obj().Name() == "error"
}

func (c *FnCtx) havocClosureWrites(common *ssa.CallCommon, st *State) {
	locals := map[*ssa.Alloc]bool{}
	heaps := map[string]bool{}
	for _, a := range common.Args {
		c.closureMods(a, locals, heaps, map[*ssa.Function]bool{})
	}
	if mc, ok := common.Value.(*ssa.MakeClosure); ok {
		c.closureMods(mc, locals, heaps, map[*ssa.Function]bool{})
	}
	for _, k := range sortedKeys(heaps) {
		if s, ok := c.g.heapSorts[k]; ok {
			c.heap(c.entry, k, s)
			st.heaps[k] = c.fresh("hv_"+k, s)
			c.havocState = st
			c.heapWellTyped(k, st.heaps[k])
			c.havocState = nil
		}
	}
}

func (c *FnCtx) runDefers(b *ssa.BasicBlock, st *State, reach *Term) {
	// deferred calls run in reverse order; only those whose defer statement dominates this point
	for i := len(c.defers) - 1; i >= 0; i-- {
		d := c.defers[i]
		if !d.Block().Dominates(b) {
			if spec := c.calleeSpec(d.Common()); spec != nil {
				c.g.note("conditional defer of %s in %s ignored", spec.Name, c.spec.Name)
			}
			c.havocClosureWrites(d.Common(), st)
			continue
		}
		c.execCall(nil, d.Common(), st, reach, true)
	}
}

var _ = strings.Contains

// sendObligations: a channel send is a call site named "chan.send" for callpre clauses
// ($arg0 the channel, $arg1 the value sent), evaluated in the state before the send.
func (c *FnCtx) sendObligations(x *ssa.Send, st *State, reach *Term) {
	for i, cp := range c.spec.CallPres {
		if !strings.Contains("chan.send", cp.Name) {
			continue
		}
		if c.callPreHit == nil {
			c.callPreHit = map[int]bool{}
		}
		c.callPreHit[i] = true
		cpEnv := c.envFor(st, c.entry)
		if cpEnv.vars == nil {
			cpEnv.vars = map[string]TV{}
		}
		cpEnv.vars["$arg0"] = TV{c.term(x.Chan), x.Chan.Type()}
		cpEnv.vars["$arg1"] = TV{c.term(x.X), x.X.Type()}
		tv, err := c.evalSpec(cp.E, cpEnv)
		if err != nil {
			c.abort("callpre %d: %v", i+1, err)
			return
		}
		c.oblige("callpre", fmt.Sprintf("%d@%s", i+1, c.posString(x.Pos())), *reach, tv.t, "at channel send: "+cp.Text)
	}
}
