package main

import (
	"fmt"
	"go/types"
	"strings"
)

// lemmaObligations turns a lemma into obligations. A formula lemma is one closed query; a proc lemma
// is a ghost client: a straight-line sequence of calls to functions under contract (only their
// contracts are used), assumptions and assertions.
func (g *Gen) lemmaObligations(l *Lemma) ([]*Obligation, error) {
	c := g.globalCtx(l.Pkg)
	c.spec.Name = "lemma:" + l.Name
	c.spec.Props = l.Props
	c.lemma = l
	c.lemmaVars = map[string]TV{}
	st := &State{locals: c.entry.locals, heaps: map[string]Term{}}
	env := &Env{c: c, st: st, old: c.entry, vars: map[string]TV{}, calleePkg: l.Pkg}
	if len(l.Stmts) == 0 {
		tv, err := c.evalSpec(l.E.E, env)
		if err != nil {
			return nil, err
		}
		c.oblige("lemma", "", tTrue, tv.t, l.E.Text)
		return c.obls, nil
	}
	pkg := g.typesPkg(l.Pkg)
	for _, v := range l.Vars {
		t, err := g.resolveType(v.Type, pkg)
		if err != nil {
			return nil, err
		}
		env.vars[v.Name] = TV{c.freshTyped("lv_"+v.Name, t), t}
		c.lemmaVars[v.Name] = env.vars[v.Name]
		c.assumeRefs(env.vars[v.Name].t, t, st)
	}
	reach := tTrue
	nAssert := 0
	for _, s := range l.Stmts {
		switch s.Kind {
		case "var":
			t, err := g.resolveType(s.Type, pkg)
			if err != nil {
				return nil, err
			}
			env.vars[s.Names[0]] = TV{c.freshTyped("lv_"+s.Names[0], t), t}
		case "assume":
			tv, err := c.evalSpec(s.E, env)
			if err != nil {
				return nil, err
			}
			c.assume(reach, tv.t)
		case "assert":
			tv, err := c.evalSpec(s.E, env)
			if err != nil {
				return nil, err
			}
			nAssert++
			c.oblige("assert", fmt.Sprintf("%d", nAssert), reach, tv.t, s.Text)
			c.assume(reach, tv.t)
		case "let":
			call, ok := s.E.(*ECall)
			if !ok {
				return nil, fmt.Errorf("let needs a call: %s", s.Text)
			}
			f, recv, err := c.resolveGoFunc(call.Fun, env)
			if err != nil {
				return nil, err
			}
			spec := g.lookupSpecForObj(f)
			if spec == nil {
				return nil, fmt.Errorf("lemma %s calls %s, which has no contract", l.Name, objFullName(f))
			}
			var args []TV
			if recv != nil {
				args = append(args, *recv)
			}
			for _, a := range call.Args {
				v, err := c.evalSpec(a, env)
				if err != nil {
					return nil, err
				}
				args = append(args, v)
			}
			sig := f.Type().(*types.Signature)
			// untyped nil / int literals take the parameter type
			ptypes := calleeParamTypes(sig)
			for i := range args {
				if i < len(ptypes) {
					if args[i].typ == nil || args[i].typ == types.Typ[types.UntypedNil] {
						if g.u.sortOf(ptypes[i]) == SSlice && args[i].t.Sort == SInt {
							args[i].t = nilSlice
						}
						args[i].typ = ptypes[i]
					}
				}
			}
			names := calleeParamNames(spec, sig, false)
			env.st = st
			results := c.applyContract(spec, sig, names, args, st, &reach, false)
			if c.failed != "" {
				return nil, fmt.Errorf("%s", c.failed)
			}
			if len(s.Names) != len(results) {
				return nil, fmt.Errorf("let %v: %s returns %d values", s.Names, f.Name(), len(results))
			}
			for i, n := range s.Names {
				if n != "_" {
					env.vars[n] = results[i]
				}
			}
		}
	}
	c.cover("end", reach)
	if nAssert == 0 {
		return nil, fmt.Errorf("lemma %s has no assert", l.Name)
	}
	return c.obls, nil
}

// resolveGoFunc resolves F or recv.M in a lemma call.
func (c *FnCtx) resolveGoFunc(fun Expr, env *Env) (*types.Func, *TV, error) {
	switch x := fun.(type) {
	case *EIdent:
		if f, ok := env.pkg().Scope().Lookup(x.Name).(*types.Func); ok {
			return f, nil, nil
		}
		return nil, nil, fmt.Errorf("unknown function %s", x.Name)
	case *ESel:
		if id, ok := x.X.(*EIdent); ok {
			if _, bound := env.vars[id.Name]; !bound {
				for _, imp := range []*types.Package{c.g.lookupImport(env.pkg(), id.Name)} {
					if imp != nil {
						if f, ok := imp.Scope().Lookup(x.Name).(*types.Func); ok {
							return f, nil, nil
						}
					}
				}
			}
		}
		recv, err := c.evalSpec(x.X, env)
		if err != nil {
			return nil, nil, err
		}
		obj, _, _ := types.LookupFieldOrMethod(recv.typ, true, env.pkg(), x.Name)
		f, ok := obj.(*types.Func)
		if !ok {
			return nil, nil, fmt.Errorf("no method %s on %s", x.Name, recv.typ)
		}
		sig := f.Type().(*types.Signature)
		_, wantPtr := sig.Recv().Type().(*types.Pointer)
		_, havePtr := types.Unalias(recv.typ).Underlying().(*types.Pointer)
		if wantPtr != havePtr {
			return nil, nil, fmt.Errorf("receiver of %s: pointer mismatch (embedded promotion is not supported in lemmas)", x.Name)
		}
		return f, &recv, nil
	}
	return nil, nil, fmt.Errorf("bad call target %s", fun.exprString())
}

var _ = strings.Contains
