package main

import (
	"fmt"
	"go/token"
	"go/types"
	"strings"

	"golang.org/x/tools/go/ssa"
)

// Precise loop frames. A loop's havoc of a heap is narrowed to the objects the loop can write when
// every write site addresses an object whose reference is loop-invariant (or is the entry value of an
// accumulator local, or is allocated inside the loop). All other objects that existed before the loop
// keep their contents at the loop head, so invariants need not restate them.

type writeSite struct {
	key      string
	ref      ssa.Value // pointer / slice / map value identifying the written object
	entryOf  *ssa.Alloc // accumulator: the object is the entry value of this local
	isSlice  bool
}

type loopFrame struct {
	sites       map[string][]writeSite
	coarse      map[string]bool
	fieldWrites map[string]map[int]bool // struct heaps: first-level fields stored to in the loop
	wholeWrite  map[string]bool         // struct heaps: some store replaces a whole object (or unknown)
}

// firstField returns the field index closest to root on the address chain addr (root excluded), or -1.
func firstField(addr ssa.Value, root ssa.Value) int {
	f := -1
	v := addr
	for v != root {
		switch x := v.(type) {
		case *ssa.FieldAddr:
			f = x.Field
			v = x.X
		case *ssa.IndexAddr:
			f = -1
			v = x.X
		default:
			return -1
		}
	}
	return f
}

func (c *FnCtx) computeLoopFrame(li *loopInfo) *loopFrame {
	g := c.g
	lf := &loopFrame{sites: map[string][]writeSite{}, coarse: map[string]bool{}, fieldWrites: map[string]map[int]bool{}, wholeWrite: map[string]bool{}}
	noteField := func(k string, addr, root ssa.Value) {
		f := firstField(addr, root)
		if f < 0 {
			lf.wholeWrite[k] = true
			return
		}
		if lf.fieldWrites[k] == nil {
			lf.fieldWrites[k] = map[int]bool{}
		}
		lf.fieldWrites[k][f] = true
	}
	add := func(k string, ws writeSite) {
		ws.key = k
		lf.sites[k] = append(lf.sites[k], ws)
	}
	for b := range li.blocks {
		for _, in := range b.Instrs {
			switch x := in.(type) {
			case *ssa.Store:
				root := rootOfAddr(x.Addr)
				switch r := root.(type) {
				case *ssa.Alloc:
					if r.Heap {
						k, _ := g.heapKeyFor(r.Type().(*types.Pointer).Elem())
						if li.blocks[r.Block()] {
							// object allocated inside the loop: fresh, no pre-existing object disturbed
							add(k, writeSite{})
						} else {
							add(k, writeSite{ref: r})
							noteField(k, x.Addr, root)
						}
					}
				case *ssa.IndexAddr:
					k, _ := g.elemHeapKey(r.X.Type().Underlying().(*types.Slice).Elem())
					add(k, writeSite{ref: r.X, isSlice: true})
				case *ssa.Global:
					lf.coarse["G_"+mangle(r.Pkg.Pkg.Path()+"."+r.Name())] = true
				default:
					if pt, ok := root.Type().Underlying().(*types.Pointer); ok {
						k, _ := g.heapKeyFor(pt.Elem())
						add(k, writeSite{ref: root})
						noteField(k, x.Addr, root)
					}
				}
			case *ssa.Alloc:
				if x.Heap {
					k, _ := g.heapKeyFor(x.Type().(*types.Pointer).Elem())
					add(k, writeSite{})
				}
			case *ssa.MakeSlice:
				k, _ := g.elemHeapKey(x.Type().Underlying().(*types.Slice).Elem())
				add(k, writeSite{})
			case *ssa.MakeMap:
				if m, ok := x.Type().Underlying().(*types.Map); ok {
					h, _, v, _ := g.mapHeapKeys(m)
					add(h, writeSite{})
					add(v, writeSite{})
					add("MLen", writeSite{})
				}
			case *ssa.MapUpdate:
				if m, ok := x.Map.Type().Underlying().(*types.Map); ok {
					h, _, v, _ := g.mapHeapKeys(m)
					add(h, writeSite{ref: x.Map})
					add(v, writeSite{ref: x.Map})
					add("MLen", writeSite{ref: x.Map})
				}
			case *ssa.Call, *ssa.Defer, *ssa.Go:
				common := in.(ssa.CallInstruction).Common()
				if bi, ok := common.Value.(*ssa.Builtin); ok {
					switch bi.Name() {
					case "append":
						sl, ok := common.Args[0].Type().Underlying().(*types.Slice)
						if !ok {
							continue
						}
						k, _ := g.elemHeapKey(sl.Elem())
						if acc := c.accumulatorOf(common.Args[0], li); acc != nil {
							add(k, writeSite{entryOf: acc, isSlice: true})
						} else {
							add(k, writeSite{ref: common.Args[0], isSlice: true})
						}
					case "copy":
						if sl, ok := common.Args[0].Type().Underlying().(*types.Slice); ok {
							k, _ := g.elemHeapKey(sl.Elem())
							add(k, writeSite{ref: common.Args[0], isSlice: true})
						}
					case "delete", "clear":
						if m, ok := common.Args[0].Type().Underlying().(*types.Map); ok {
							h, _, v, _ := g.mapHeapKeys(m)
							add(h, writeSite{ref: common.Args[0]})
							add(v, writeSite{ref: common.Args[0]})
							add("MLen", writeSite{ref: common.Args[0]})
						}
					}
					continue
				}
				// a contracted callee whose modifies clauses are plain slice/pointer parameters writes
				// exactly those arguments; everything else a call may touch is coarse
				tmpL := map[*ssa.Alloc]bool{}
				tmpH := map[string]bool{}
				c.instrMods(in, tmpL, tmpH)
				if sites, ok := c.preciseCallSites(common, li); ok {
					for k, wss := range sites {
						for _, ws := range wss {
							add(k, ws)
							if ws.ref != nil && !ws.isSlice {
								lf.wholeWrite[k] = true
							}
						}
						delete(tmpH, k)
					}
				}
				for k := range tmpH {
					if k != nextKey {
						lf.coarse[k] = true
					}
				}
			}
		}
	}
	return lf
}

// accumulatorOf: v is a load of local L, L is modified in the loop only by stores of append(L, ...).
func (c *FnCtx) accumulatorOf(v ssa.Value, li *loopInfo) *ssa.Alloc {
	ld, ok := v.(*ssa.UnOp)
	if !ok || ld.Op != token.MUL {
		return nil
	}
	a, ok := ld.X.(*ssa.Alloc)
	if !ok || a.Heap || li.blocks[a.Block()] {
		return nil
	}
	for _, ref := range *a.Referrers() {
		st, ok := ref.(*ssa.Store)
		if !ok || st.Addr != a || !li.blocks[st.Block()] {
			continue
		}
		call, ok := st.Val.(*ssa.Call)
		if !ok {
			return nil
		}
		bi, ok := call.Call.Value.(*ssa.Builtin)
		if !ok || bi.Name() != "append" {
			return nil
		}
		src, ok := call.Call.Args[0].(*ssa.UnOp)
		if !ok || src.X != a {
			return nil
		}
	}
	return a
}

// invariantTerm evaluates an SSA value that is loop-invariant, in state st (the loop-entry state).
func (c *FnCtx) invariantTerm(v ssa.Value, li *loopInfo, st *State, depth int) (Term, bool) {
	if depth > 6 {
		return Term{}, false
	}
	switch x := v.(type) {
	case *ssa.Parameter, *ssa.Const, *ssa.FreeVar:
		return c.term(v), true
	case *ssa.Alloc:
		if x.Heap && !li.blocks[x.Block()] {
			return c.term(v), true
		}
		return Term{}, false
	}
	if in, ok := v.(ssa.Instruction); ok && !li.blocks[in.Block()] {
		if _, done := c.regs[v]; done {
			r := c.regs[v]
			if r.kind == vTerm {
				return r.t, true
			}
		}
		return Term{}, false
	}
	switch x := v.(type) {
	case *ssa.UnOp:
		if x.Op != token.MUL {
			return Term{}, false
		}
		a, ok := c.invariantAddr(x.X, li, st, depth+1)
		if !ok {
			return Term{}, false
		}
		return c.load(st, a), true
	case *ssa.Field:
		t, ok := c.invariantTerm(x.X, li, st, depth+1)
		if !ok {
			return Term{}, false
		}
		return c.g.u.field(t, x.Field), true
	case *ssa.ChangeType:
		return c.invariantTerm(x.X, li, st, depth+1)
	}
	return Term{}, false
}

func (c *FnCtx) invariantAddr(v ssa.Value, li *loopInfo, st *State, depth int) (*Addr, bool) {
	switch x := v.(type) {
	case *ssa.Alloc:
		et := x.Type().(*types.Pointer).Elem()
		if !x.Heap {
			if li.modLocals[x] || li.blocks[x.Block()] {
				return nil, false
			}
			return &Addr{kind: aLocal, local: x, rootType: et, typ: et}, true
		}
		if li.blocks[x.Block()] {
			return nil, false
		}
		k, _ := c.g.heapKeyFor(et)
		if li.modHeaps[k] {
			return nil, false
		}
		return &Addr{kind: aHeap, ref: c.term(x), rootType: et, typ: et}, true
	case *ssa.FieldAddr:
		base, ok := c.invariantAddr(x.X, li, st, depth+1)
		if !ok {
			// the struct heap is written in the loop, but not this field
			pt, isPtr := x.X.Type().Underlying().(*types.Pointer)
			if !isPtr || li.frame == nil {
				return nil, false
			}
			k, _ := c.g.heapKeyFor(pt.Elem())
			if li.frame.coarse[k] || li.frame.wholeWrite[k] || li.frame.fieldWrites[k][x.Field] {
				return nil, false
			}
			if _, isStruct := pt.Elem().Underlying().(*types.Struct); !isStruct {
				return nil, false
			}
			ref, ok2 := c.invariantTerm(x.X, li, st, depth+1)
			if !ok2 {
				return nil, false
			}
			base = &Addr{kind: aHeap, ref: ref, rootType: pt.Elem(), typ: pt.Elem()}
		}
		st0, ok := types.Unalias(base.typ).Underlying().(*types.Struct)
		if !ok {
			return nil, false
		}
		na := *base
		na.path = append(append([]pathStep{}, base.path...), pathStep{field: x.Field})
		na.typ = st0.Field(x.Field).Type()
		return &na, true
	case *ssa.Global:
		return nil, false
	default:
		pt, ok := v.Type().Underlying().(*types.Pointer)
		if !ok {
			return nil, false
		}
		if _, isArr := pt.Elem().Underlying().(*types.Array); isArr {
			return nil, false
		}
		k, _ := c.g.heapKeyFor(pt.Elem())
		if li.modHeaps[k] {
			return nil, false
		}
		ref, ok := c.invariantTerm(v, li, st, depth+1)
		if !ok {
			return nil, false
		}
		return &Addr{kind: aHeap, ref: ref, rootType: pt.Elem(), typ: pt.Elem()}, true
	}
}

// preciseTargets: for heap key k, the references of the pre-existing objects the loop may write, or
// ok=false when the havoc has to be coarse.
func (c *FnCtx) preciseTargets(li *loopInfo, lf *loopFrame, k string, entry *State) ([]Term, bool) {
	if lf.coarse[k] || strings.HasPrefix(k, "G_") || strings.HasPrefix(k, "GH_") {
		return nil, false
	}
	var out []Term
	seen := map[string]bool{}
	for _, ws := range lf.sites[k] {
		if ws.ref == nil && ws.entryOf == nil {
			continue // fresh object
		}
		var t Term
		if ws.entryOf != nil {
			v, ok := entry.locals[ws.entryOf]
			if !ok {
				v = c.g.u.zero(ws.entryOf.Type().(*types.Pointer).Elem())
			}
			t = v
		} else {
			v, ok := c.invariantTerm(ws.ref, li, entry, 0)
			if !ok {
				return nil, false
			}
			t = v
		}
		if ws.isSlice {
			t = sBase(t)
		}
		if !seen[t.S] {
			seen[t.S] = true
			out = append(out, t)
		}
	}
	return out, true
}

// frameFact: objects below bound and different from the targets are equal in the two heap versions.
func frameFact(newH, oldH Term, bound Term, targets []Term) Term {
	conds := []Term{lt(tZero, Term{"p!", SInt}), lt(Term{"p!", SInt}, bound)}
	for _, t := range targets {
		conds = append(conds, not(eq(Term{"p!", SInt}, t)))
	}
	return Term{fmt.Sprintf("(forall ((p! Int)) (! (=> %s (= (select %s p!) (select %s p!))) :pattern ((select %s p!))))",
		and(conds...).S, newH.S, oldH.S, newH.S), SBool}
}

// preciseCallSites maps the modifies clauses of a contracted callee to write sites, when every clause
// is a plain parameter name of slice or pointer type.
func (c *FnCtx) preciseCallSites(common *ssa.CallCommon, li *loopInfo) (map[string][]writeSite, bool) {
	spec := c.calleeSpec(common)
	if spec == nil || len(spec.Modifies) == 0 {
		return nil, false
	}
	obj := c.calleeObj(common)
	var sig *types.Signature
	if obj != nil {
		sig = obj.Type().(*types.Signature)
	} else {
		sig = common.Signature()
	}
	names := calleeParamNames(spec, sig, common.IsInvoke())
	ptypes := calleeParamTypes(sig)
	var args []ssa.Value
	if common.IsInvoke() {
		args = append(args, common.Value)
	}
	args = append(args, common.Args...)
	out := map[string][]writeSite{}
	for _, m := range spec.Modifies {
		id, ok := m.E.(*EIdent)
		if !ok {
			return nil, false
		}
		idx := -1
		for i, n := range names {
			if n == id.Name {
				idx = i
			}
		}
		if idx < 0 || idx >= len(args) || idx >= len(ptypes) {
			return nil, false
		}
		a := args[idx]
		switch tt := types.Unalias(ptypes[idx]).Underlying().(type) {
		case *types.Slice:
			k, _ := c.g.elemHeapKey(tt.Elem())
			if c.freshSliceInLoop(a, li, 0) {
				out[k] = append(out[k], writeSite{})
			} else {
				out[k] = append(out[k], writeSite{ref: a, isSlice: true})
			}
		case *types.Pointer:
			k, _ := c.g.heapKeyFor(tt.Elem())
			out[k] = append(out[k], writeSite{ref: a})
		default:
			return nil, false
		}
	}
	return out, true
}

// freshSliceInLoop: v is (a reslice of) a slice made inside the loop, possibly through a local that is
// declared in the loop and only ever assigned such slices.
func (c *FnCtx) freshSliceInLoop(v ssa.Value, li *loopInfo, depth int) bool {
	if depth > 4 {
		return false
	}
	switch x := v.(type) {
	case *ssa.MakeSlice:
		return li.blocks[x.Block()]
	case *ssa.Slice:
		return c.freshSliceInLoop(x.X, li, depth+1)
	case *ssa.UnOp:
		if x.Op != token.MUL {
			return false
		}
		a, ok := x.X.(*ssa.Alloc)
		if !ok || a.Heap || !li.blocks[a.Block()] {
			return false
		}
		n := 0
		for _, r := range *a.Referrers() {
			switch s := r.(type) {
			case *ssa.Store:
				if s.Addr != a || !c.freshSliceInLoop(s.Val, li, depth+1) {
					return false
				}
				n++
			case *ssa.UnOp, *ssa.DebugRef:
			default:
				return false
			}
		}
		return n > 0
	}
	return false
}
