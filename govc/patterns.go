package main

import (
	"sort"
	"strings"
)

// withPatterns annotates a quantifier body with triggers: element positions "(idx off v)" that mention
// the bound variables. Slice-element facts then instantiate exactly at the positions that occur in the
// query, independently of the solvers' own trigger selection. If the bound variables are not all
// covered by such terms, the body is returned unchanged.
func withPatterns(body string, vars []string) string {
	isVar := map[string]bool{}
	for _, v := range vars {
		isVar[v] = true
	}
	cands := map[string]map[string]bool{} // idx term -> bound vars it mentions
	for i := 0; i+5 <= len(body); i++ {
		if !strings.HasPrefix(body[i:], "(idx ") {
			continue
		}
		j := matchParen(body, i)
		term := body[i : j+1]
		mentions := map[string]bool{}
		foreign := false
		for tok := range tokenSet(term) {
			if isVar[tok] {
				mentions[tok] = true
			} else if strings.HasPrefix(tok, "q_") || strings.HasSuffix(tok, "!") {
				foreign = true // variable of another (inner/outer) quantifier
			}
		}
		if len(mentions) > 0 && !foreign {
			cands[term] = mentions
		}
	}
	if len(cands) == 0 {
		return body
	}
	// single terms covering all variables are alternative patterns; otherwise one multi-pattern
	var terms []string
	for t := range cands {
		terms = append(terms, t)
	}
	sort.Strings(terms)
	var alts []string
	for _, t := range terms {
		if len(cands[t]) == len(vars) {
			alts = append(alts, "("+t+")")
		}
	}
	if len(alts) == 0 {
		covered := map[string]bool{}
		var multi []string
		for _, t := range terms {
			adds := false
			for v := range cands[t] {
				if !covered[v] {
					adds = true
				}
			}
			if adds {
				multi = append(multi, t)
				for v := range cands[t] {
					covered[v] = true
				}
			}
		}
		if len(covered) != len(vars) {
			return body
		}
		alts = []string{"(" + strings.Join(multi, " ") + ")"}
	}
	if len(alts) > 4 {
		alts = alts[:4]
	}
	var b strings.Builder
	b.WriteString("(! ")
	b.WriteString(body)
	for _, a := range alts {
		b.WriteString(" :pattern ")
		b.WriteString(a)
	}
	b.WriteString(")")
	return b.String()
}
