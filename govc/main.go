package main

import (
	"regexp"
	"encoding/json"
	"flag"
	"fmt"
	"go/parser"
	"go/token"
	"go/types"
	"os"
	"path/filepath"
	"sort"
	"strings"
	"time"

	"golang.org/x/tools/go/packages"
	"golang.org/x/tools/go/ssa"
	"golang.org/x/tools/go/ssa/ssautil"
)

type options struct {
	repo     string
	prop     string
	tier     string
	outDir   string
	evidence string
	known    string
	seed     int
	workers  int
	only     string
	sweep    string
	lint     bool
	noReplay bool
	timeoutS int
	dump     string
	verbose  bool
	replayD  string
}

var lineRe = regexp.MustCompile(`(@[^:@]+\.go):\d+`)

func main() {
	var o options
	flag.StringVar(&o.repo, "repo", "/repo", "repository root")
	flag.StringVar(&o.prop, "prop", "", "property id (C01..), or ALL")
	flag.StringVar(&o.tier, "tier", "quick", "quick|thorough")
	flag.StringVar(&o.outDir, "out", "/verif/out", "artefact directory")
	flag.StringVar(&o.evidence, "evidence", "/verif/evidence", "evidence directory")
	flag.StringVar(&o.known, "known", "/verif/KNOWN_FINDINGS.json", "known findings file")
	flag.IntVar(&o.seed, "seed", 0, "seed")
	flag.IntVar(&o.workers, "workers", 6, "parallel obligations")
	flag.StringVar(&o.only, "only", "", "substring filter on function name (debug)")
	flag.BoolVar(&o.noReplay, "noreplay", false, "do not replay counterexamples (exploration)")
	flag.IntVar(&o.timeoutS, "timeout", 0, "solver seconds per obligation (default by tier)")
	flag.BoolVar(&o.lint, "lint", false, "list struct fields a contract may modify but never mentions in an ensures/checks clause")
	flag.StringVar(&o.sweep, "sweep", "", "comma-separated package paths: give every function without a contract a safety-only contract (nopanic, pointer parameters non-nil) under property SWEEP (exploration, not a registered check)")
	flag.StringVar(&o.dump, "dump", "", "dump SSA of function (pkgpath::name)")
	flag.BoolVar(&o.verbose, "v", false, "verbose")
	flag.StringVar(&o.replayD, "replaydir", "/verif/replay", "replay templates")
	flag.Parse()
	if v := os.Getenv("VERIF_SEED"); v != "" && o.seed == 0 {
		fmt.Sscanf(v, "%d", &o.seed)
	}
	if v := os.Getenv("VERIF_TIER"); v != "" {
		o.tier = v
	}
	code := run(&o)
	os.Exit(code)
}

func fatal(f string, a ...any) {
	fmt.Fprintf(os.Stderr, "govc: "+f+"\n", a...)
	os.Exit(2)
}

func run(o *options) int {
	start := time.Now()
	files, err := findContractFiles(o.repo)
	if err != nil {
		fatal("%v", err)
	}
	contracts := newContracts()
	pkgOfFile := map[string]string{}
	modPath := "github.com/celestiaorg/celestia-node"
	for _, f := range files {
		rel, _ := filepath.Rel(o.repo, filepath.Dir(f))
		pp := modPath
		if rel != "." {
			pp = modPath + "/" + filepath.ToSlash(rel)
		}
		pkgOfFile[f] = pp
		if err := contracts.parseContractFile(f, pp); err != nil {
			fatal("%v", err)
		}
	}
	// which packages to load: those with function specs for the property
	want := map[string]bool{}
	for _, fs := range contracts.Funcs {
		if fs.Extern {
			continue
		}
		if o.prop == "ALL" || o.prop == "WARMUP" || o.prop == "" || hasProp(fs.Props, o.prop) {
			want[fs.Pkg] = true
		}
	}
	for _, l := range contracts.Lemmas {
		if o.prop == "ALL" || o.prop == "" || hasProp(l.Props, o.prop) {
			want[l.Pkg] = true
		}
	}
	for _, pt := range contracts.Perms {
		if o.prop == "ALL" || o.prop == "WARMUP" || o.prop == "" || hasProp(pt.Props, o.prop) {
			want[pt.Pkg] = true
		}
	}
	if o.dump != "" {
		want[strings.SplitN(o.dump, "::", 2)[0]] = true
	}
	for _, sp := range strings.Split(o.sweep, ",") {
		if sp != "" {
			want[sp] = true
		}
	}
	if len(want) == 0 {
		fatal("no contracts for property %s", o.prop)
	}
	var patterns []string
	for p := range want {
		patterns = append(patterns, p)
	}
	sort.Strings(patterns)
	cfg := &packages.Config{Mode: packages.LoadSyntax, Dir: o.repo, BuildFlags: []string{"-tags=verif"}}
	pkgs, err := packages.Load(cfg, patterns...)
	if err != nil {
		fatal("load: %v", err)
	}
	nerr := 0
	packages.Visit(pkgs, nil, func(p *packages.Package) {
		for _, e := range p.Errors {
			fmt.Fprintf(os.Stderr, "load error: %v\n", e)
			nerr++
		}
	})
	if nerr > 0 {
		fatal("packages did not load cleanly (the tree must compile)")
	}
	prog, _ := ssautil.AllPackages(pkgs, ssa.NaiveForm|ssa.InstantiateGenerics)
	g := &Gen{u: newUniverse(), contracts: contracts, prog: prog, pkgs: map[string]*ssa.Package{},
		notes: map[string]bool{}, unmodelled: map[string]bool{}, specFuncs: map[*FuncSpec]*ssa.Function{},
		heapSorts: map[string]Sort{}, heapRange: map[string][2]string{}, aliases: map[string]map[string]string{}, heapCell: map[string]types.Type{}}
	for _, p := range pkgs {
		sp := prog.Package(p.Types)
		sp.Build()
		g.pkgs[p.PkgPath] = sp
		g.aliases[p.PkgPath] = map[string]string{}
		for _, f := range p.Syntax {
			for _, is := range f.Imports {
				if is.Name != nil && is.Name.Name != "_" && is.Name.Name != "." {
					g.aliases[p.PkgPath][is.Name.Name] = strings.Trim(is.Path.Value, "\"")
				}
				g.noteDirect(p.PkgPath, strings.Trim(is.Path.Value, "\""))
			}
		}
	}
	// import aliases of every package that has a contract file (its contracts may be used by callers
	// in other packages even when the package itself is only loaded as a dependency)
	for f, pp := range pkgOfFile {
		if _, done := g.aliases[pp]; done {
			continue
		}
		g.aliases[pp] = map[string]string{}
		fset := token.NewFileSet()
		pkgsAst, err := parser.ParseDir(fset, filepath.Dir(f), func(fi os.FileInfo) bool { return !strings.HasSuffix(fi.Name(), "_test.go") }, parser.ImportsOnly)
		if err != nil {
			continue
		}
		for _, pa := range pkgsAst {
			for _, file := range pa.Files {
				for _, is := range file.Imports {
					if is.Name != nil && is.Name.Name != "_" && is.Name.Name != "." {
						g.aliases[pp][is.Name.Name] = strings.Trim(is.Path.Value, "\"")
					}
					g.noteDirect(pp, strings.Trim(is.Path.Value, "\""))
				}
			}
		}
	}
	loadS := time.Since(start).Seconds()
	if o.prop == "WARMUP" {
		fmt.Printf("govc: warm-up load of %d packages in %.1fs\n", len(pkgs), loadS)
		return 0
	}

	// index functions by relative name
	byName := map[string]*ssa.Function{}
	for path, sp := range g.pkgs {
		for _, fn := range packageFunctions(prog, sp) {
			byName[path+"::"+relFuncName(fn)] = fn
		}
	}
	// sweep: safety-only contracts for every function of the named packages that has none
	for _, sp := range strings.Split(o.sweep, ",") {
		if sp == "" {
			continue
		}
		for k, fn := range byName {
			if !strings.HasPrefix(k, sp+"::") || fn.Synthetic != "" || fn.Blocks == nil {
				continue
			}
			if _, has := contracts.Funcs[k]; has {
				continue
			}
			if pos := prog.Fset.Position(fn.Pos()); strings.HasSuffix(pos.Filename, "_test.go") || strings.HasSuffix(pos.Filename, ".pb.go") {
				continue
			}
			fs := &FuncSpec{Name: relFuncName(fn), Pkg: sp, Props: []string{"SWEEP"}, NoPanic: true, NoFrame: true, Loops: map[int]*LoopSpec{}}
			for _, prm := range fn.Params {
				if _, isPtr := prm.Type().Underlying().(*types.Pointer); isPtr && prm.Name() != "" && prm.Name() != "_" {
					if e, err := parseSpecExpr(prm.Name() + " != nil"); err == nil {
						fs.Requires = append(fs.Requires, Clause{Text: prm.Name() + " != nil", E: e})
					}
				}
			}
			contracts.Funcs[k] = fs
		}
	}
	if o.dump != "" {
		fn := byName[o.dump]
		if fn == nil {
			// list the names that contain the requested suffix, to help keying closures
			want := o.dump[strings.Index(o.dump, "::")+2:]
			for k := range byName {
				if strings.Contains(k, strings.SplitN(want, "$", 2)[0]) {
					fmt.Println(k)
				}
			}
			fatal("no function %s", o.dump)
		}
		fn.WriteTo(os.Stdout)
		return 0
	}

	// global axioms
	if err := g.installAxioms(); err != nil {
		fatal("%v", err)
	}

	var allObls []*Obligation
	type fnReport struct {
		Name        string   `json:"function"`
		Pkg         string   `json:"package"`
		Obligations int      `json:"obligations"`
		Failed      string   `json:"unsupported,omitempty"`
		Dropped     []string `json:"dropped,omitempty"`
		Trusted     bool     `json:"trusted,omitempty"`
	}
	var fnReports []*fnReport
	var missing []string
	keys := sortedKeys(contracts.Funcs)
	underContract := 0
	for _, k := range keys {
		fs := contracts.Funcs[k]
		if fs.Extern {
			continue
		}
		if !(o.prop == "ALL" || o.prop == "" || hasProp(fs.Props, o.prop)) {
			continue
		}
		if o.only != "" && !strings.Contains(fs.Name, o.only) {
			continue
		}
		fn := byName[k]
		if fn == nil {
			missing = append(missing, k)
			continue
		}
		underContract++
		rep := &fnReport{Name: fs.Name, Pkg: fs.Pkg, Dropped: fs.Dropped, Trusted: fs.Trusted}
		fnReports = append(fnReports, rep)
		if fs.Trusted {
			g.note("TRUSTED contract (body not verified): %s.%s", fs.Pkg, fs.Name)
			continue
		}
		if o.lint {
			lintSilentFields(fn, fs)
		}
		c := g.newFnCtx(fn, fs)
		func() {
			defer func() {
				if r := recover(); r != nil {
					c.failed = fmt.Sprintf("generator panic: %v", r)
					if o.verbose {
						panic(r)
					}
				}
			}()
			c.run()
		}()
		if c.failed != "" {
			rep.Failed = c.failed
			// an unsupported function is an undischarged obligation, never a silent pass
			allObls = append(allObls, &Obligation{Name: fmt.Sprintf("%s.%s#unsupported", fn.Pkg.Pkg.Name(), fs.Name), Kind: "unsupported",
				Fn: fs.Name, Pkg: fs.Pkg, Props: fs.Props, Body: "(assert true)\n", Goal: "function within the supported subset: " + c.failed, fc: c})
			continue
		}
		rep.Obligations = len(c.obls)
		allObls = append(allObls, c.obls...)
	}
	// permission tables (contracts on declarations)
	for _, pt := range contracts.Perms {
		if !(o.prop == "ALL" || o.prop == "" || hasProp(pt.Props, o.prop)) {
			continue
		}
		obls, err := g.permObligations(pt)
		if err != nil {
			allObls = append(allObls, &Obligation{Name: "permtable:" + pt.Type + "#unsupported", Kind: "unsupported", Fn: pt.Type,
				Pkg: pt.Pkg, Props: pt.Props, Body: "(assert true)\n", Goal: "permission table could be checked: " + err.Error()})
			continue
		}
		underContract++
		allObls = append(allObls, obls...)
	}
	// lemmas
	for _, l := range contracts.Lemmas {
		if !(o.prop == "ALL" || o.prop == "" || hasProp(l.Props, o.prop)) {
			continue
		}
		if o.only != "" && !strings.Contains(l.Name, o.only) {
			continue
		}
		obls, err := g.lemmaObligations(l)
		if err != nil {
			allObls = append(allObls, &Obligation{Name: "lemma:" + l.Name + "#unsupported", Kind: "unsupported", Fn: "lemma:" + l.Name,
				Pkg: l.Pkg, Props: l.Props, Body: "(assert true)\n", Goal: "lemma could not be generated: " + err.Error()})
			continue
		}
		allObls = append(allObls, obls...)
	}
	for _, m := range missing {
		allObls = append(allObls, &Obligation{Name: m + "#missing-target", Kind: "unsupported", Fn: m, Body: "(assert true)\n",
			Goal: "contract target exists in the source tree"})
	}
	genS := time.Since(start).Seconds() - loadS

	timeout := 10
	if o.tier == "thorough" {
		timeout = 60
		crossCheckS = 15
	}
	if o.timeoutS > 0 {
		timeout = o.timeoutS
	}
	outDir := filepath.Join(o.outDir, o.prop)
	_ = os.RemoveAll(outDir)
	verdicts := solveAll(g.u, allObls, outDir, timeout, o.workers, o.seed)
	return report(o, g, verdicts, fnReports, underContract, loadS, genS, start, outDir)
}

func hasProp(ps []string, p string) bool {
	for _, x := range ps {
		if x == p {
			return true
		}
	}
	return false
}

func packageFunctions(prog *ssa.Program, sp *ssa.Package) []*ssa.Function {
	var out []*ssa.Function
	seen := map[*ssa.Function]bool{}
	var addFn func(fn *ssa.Function)
	addFn = func(fn *ssa.Function) {
		if fn == nil || seen[fn] || fn.Synthetic != "" && !strings.HasPrefix(fn.Synthetic, "range-over-func") {
			return
		}
		seen[fn] = true
		out = append(out, fn)
		for _, a := range fn.AnonFuncs {
			addFn(a)
		}
	}
	for _, m := range sp.Members {
		switch x := m.(type) {
		case *ssa.Function:
			addFn(x)
			// function literals in package-level variable initialisers belong to the synthetic package
			// initialiser: they can be put under contract as init$N
			if x.Name() == "init" && x.Synthetic != "" {
				for _, a := range x.AnonFuncs {
					addFn(a)
				}
			}
		case *ssa.Type:
			named, ok := x.Type().(*types.Named)
			if !ok {
				continue
			}
			for i := 0; i < named.NumMethods(); i++ {
				addFn(prog.FuncValue(named.Method(i)))
			}
		}
	}
	return out
}

func (g *Gen) newFnCtx(fn *ssa.Function, fs *FuncSpec) *FnCtx {
	g.fnOrd++
	return &FnCtx{g: g, fn: fn, spec: fs, prefix: fmt.Sprintf("f%d_", g.fnOrd), regs: map[ssa.Value]Val{},
		in: map[*ssa.BasicBlock]*State{}, out: map[*ssa.BasicBlock]*State{}, reach: map[*ssa.BasicBlock]Term{},
		edges: map[[2]int]Term{}, nameCnt: map[string]int{}, dropped: map[string]bool{}}
}

// installAxioms evaluates every axiom in a function-less context and registers it globally.
func (g *Gen) installAxioms() error {
	for _, a := range g.contracts.Axioms {
		c := g.globalCtx(a.Pkg)
		env := &Env{c: c, st: c.entry, old: c.entry, vars: map[string]TV{}, calleePkg: a.Pkg}
		tv, err := c.evalSpec(a.E, env)
		if err != nil {
			return fmt.Errorf("axiom %s: %v", a.Name, err)
		}
		g.u.addAxiom(tv.t.S)
		g.note("AXIOM %s: %s", a.Name, a.Text)
	}
	return nil
}

func (g *Gen) globalCtx(pkg string) *FnCtx {
	g.fnOrd++
	c := &FnCtx{g: g, spec: &FuncSpec{Pkg: pkg, Name: "$global", Loops: map[int]*LoopSpec{}}, prefix: fmt.Sprintf("g%d_", g.fnOrd),
		regs: map[ssa.Value]Val{}, nameCnt: map[string]int{}, params: map[string]TV{}}
	c.entry = &State{locals: map[*ssa.Alloc]Term{}, heaps: map[string]Term{}}
	return c
}

// ---------------------------------------------------------------------------
// Reporting

type knownFile struct {
	Findings []knownFinding `json:"findings"`
	Fixed    []string       `json:"fixed"`
}

type knownFinding struct {
	Property   string `json:"property"`
	Obligation string `json:"obligation"`
	What       string `json:"what"`
	Input      string `json:"input,omitempty"`
}

func report(o *options, g *Gen, verdicts []*Verdict, fnReports any, underContract int, loadS, genS float64, start time.Time, outDir string) int {
	var known knownFile
	if data, err := os.ReadFile(o.known); err == nil {
		_ = json.Unmarshal(data, &known)
	}
	isKnown := func(name string) *knownFinding {
		for i := range known.Findings {
			k := &known.Findings[i]
			// a finding is identified by its obligation, not by a source line: the line in a call-site
			// obligation's name (...@file.go:123) is ignored when the entry does not give one
			if k.Property == o.prop && (k.Obligation == name || k.Obligation == lineRe.ReplaceAllString(name, "$1")) {
				return k
			}
		}
		return nil
	}
	total, discharged, covers, coversOK := 0, 0, 0, 0
	wins := map[string]int{}
	crossChecked := 0
	solverS := 0.0
	var violations []string
	var knownLines []string
	var samples []map[string]any
	var failed []*Verdict
	maxBytes := 0
	for _, v := range verdicts {
		solverS += v.Seconds
		if v.Bytes > maxBytes {
			maxBytes = v.Bytes
		}
		if v.Obl.ExpectSat {
			covers++
			if v.OK {
				coversOK++
			} else {
				failed = append(failed, v)
			}
			continue
		}
		total++
		if v.OK {
			discharged++
			wins[v.Solver]++
			if v.Agree >= 2 {
				crossChecked++
			}
		} else {
			failed = append(failed, v)
		}
		if len(samples) < 8 && v.Obl.Kind != "cover" {
			samples = append(samples, map[string]any{"obligation": v.Obl.Name, "goal": v.Obl.Goal, "verdict": v.Result, "solver": v.Solver,
				"seconds": round3(v.Seconds), "smt_bytes": v.Bytes})
		}
	}
	knownHit := 0
	for _, v := range failed {
		if k := isKnown(v.Obl.Name); k != nil && !v.Obl.ExpectSat {
			knownLines = append(knownLines, fmt.Sprintf("KNOWN-FINDING: property=%s %s [%s]", o.prop, k.What, v.Obl.Name))
			knownHit++
			continue
		}
		rp := writeReplay(o, g, v, outDir)
		suffix := ""
		if !rp.confirmed {
			suffix = " no-failing-input-found"
		}
		violations = append(violations, fmt.Sprintf("VIOLATION property=%s replay=%s obligation=%s result=%s%s", o.prop, rp.path, v.Obl.Name, v.Result, suffix))
	}
	// known findings that no longer fail are reported (informational) but are not errors
	for _, l := range knownLines {
		fmt.Println(l)
	}
	for _, l := range violations {
		fmt.Println(l)
	}
	wall := time.Since(start).Seconds()
	var trusted []string
	for n := range g.notes {
		trusted = append(trusted, n)
	}
	for n := range g.unmodelled {
		trusted = append(trusted, "unmodelled callee (results arbitrary, verified state assumed untouched): "+n)
	}
	sort.Strings(trusted)
	level := "proof"
	ev := map[string]any{
		"property_id": o.prop,
		"tier":        o.tier,
		"seed":        o.seed,
		"level":       level,
		"wall_s":      round3(wall),
		"violations":  len(violations),
		"coverage": map[string]any{
			// the obligation of a listed known finding fails by definition: it is reported on its own
			// (count and KNOWN-FINDING lines) and is neither counted as discharged nor as part of the
			// obligations the proof-level claim rests on
			"obligations":            total - knownHit,
			"obligations_generated":  total,
			"discharged":             discharged,
			"known_findings_failing": knownHit,
			"known_finding_lines":    knownLines,
			"covers":                 covers,
			"covers_sat":             coversOK,
			"checker_cmd":            fmt.Sprintf("/verif/check %s --tier %s  (govc: go/ssa weakest-precondition generator; obligations raced on z3-new 5.1.0, z3 4.8.12, cvc5 1.0.3)", o.prop, o.tier),
			"trusted_base":           trusted,
			"functions_under_contract": underContract,
			"functions":              fnReports,
			"solver_wins":            wins,
			"discharged_by_two_or_more_solvers": crossChecked,
			"solver_seconds":         round3(solverS),
			"load_seconds":           round3(loadS),
			"generate_seconds":       round3(genS),
			"max_smt_bytes":          maxBytes,
			"samples":                samples,
			"explanation":            "every obligation is a weakest-precondition query generated from the go/ssa form of the function in /repo's working tree (tag verif), contracts from zz_contracts_verif.go; unsat = discharged",
		},
		"assumptions": trusted,
	}
	_ = os.MkdirAll(o.evidence, 0o755)
	data, _ := json.MarshalIndent(ev, "", " ")
	_ = os.WriteFile(filepath.Join(o.evidence, o.prop+".json"), data, 0o644)
	fmt.Printf("govc: property=%s functions=%d obligations=%d discharged=%d known=%d covers=%d/%d failed=%d wall=%.1fs (load %.1fs, gen %.1fs, solver-cpu %.1fs)\n",
		o.prop, underContract, total, discharged, knownHit, coversOK, covers, len(violations), wall, loadS, genS, solverS)
	if o.verbose {
		for _, v := range verdicts {
			if v.Seconds > 3 {
				fmt.Printf("  SLOW %.1fs %s %s by %s retried=%v bytes=%d\n", v.Seconds, v.Obl.Name, v.Result, v.Solver, v.Retried, v.Bytes)
			}
		}
		for _, v := range failed {
			fmt.Printf("  FAILED %s: %s (%s) %s\n", v.Obl.Name, v.Result, v.Obl.Goal, v.File)
		}
	}
	if total == 0 {
		fmt.Printf("VIOLATION property=%s replay=%s no obligations generated (vacuous check) no-failing-input-found\n", o.prop, outDir)
		return 1
	}
	if len(violations) > 0 {
		return 1
	}
	return 0
}

func round3(f float64) float64 { return float64(int(f*1000)) / 1000 }

// lintSilentFields: a postcondition that is silent about a field the function may modify lets a change
// that corrupts that field verify. Reported for review, not an obligation.
func lintSilentFields(fn *ssa.Function, fs *FuncSpec) {
	var texts []string
	for _, cl := range fs.Ensures {
		texts = append(texts, cl.Text)
	}
	for _, cl := range fs.Checks {
		texts = append(texts, cl.Text)
	}
	all := strings.Join(texts, " ")
	for _, m := range fs.Modifies {
		id, ok := m.E.(*EIdent)
		if !ok {
			continue
		}
		for _, prm := range fn.Params {
			if prm.Name() != id.Name {
				continue
			}
			pt, ok := prm.Type().Underlying().(*types.Pointer)
			if !ok {
				continue
			}
			st, ok := pt.Elem().Underlying().(*types.Struct)
			if !ok {
				continue
			}
			var silent []string
			for i := 0; i < st.NumFields(); i++ {
				f := st.Field(i).Name()
				if !strings.Contains(all, "."+f) && !strings.Contains(all, "deref("+id.Name+")") && !strings.Contains(all, id.Name+" == ") {
					silent = append(silent, f)
				}
			}
			if len(silent) > 0 {
				fmt.Printf("LINT %s.%s: modifies %s, postconditions silent about fields %v\n", fs.Pkg[strings.LastIndex(fs.Pkg, "/")+1:], fs.Name, id.Name, silent)
			}
		}
	}
}
