package main

import (
	"fmt"
	"os"
	"path/filepath"
	"strings"
)

type replayResult struct {
	path      string
	confirmed bool
}

// writeReplay writes the replay file for a failed obligation: obligation name, goal, solver output and
// model. If a typed builder template exists for the function, it is instantiated with the model and
// run against the real code through `go test -overlay`.
func writeReplay(o *options, g *Gen, v *Verdict, outDir string) replayResult {
	path := filepath.Join(outDir, "replay_"+sanitizeFile(v.Obl.Name)+".txt")
	var b strings.Builder
	fmt.Fprintf(&b, "obligation: %s\nfunction: %s.%s\nposition: %s\ngoal: %s\nresult: %s\nsmt: %s\n\nsolver output:\n%s\n",
		v.Obl.Name, v.Obl.Pkg, v.Obl.Fn, v.Obl.Pos, v.Obl.Goal, v.Result, v.File, v.Output)
	confirmed := false
	if o.noReplay {
		fmt.Fprintf(&b, "\nreplay skipped (-noreplay)\n")
	} else if v.Result == "sat" && v.Model != "" {
		model := parseModel(v.Model)
		fmt.Fprintf(&b, "\nmodel (inputs):\n")
		for _, k := range sortedKeys(model) {
			if strings.Contains(k, "_p_") || strings.Contains(k, "_lv_") {
				fmt.Fprintf(&b, "  %s = %s\n", k, model[k])
			}
		}
		ok, log := runReplay(o, g, v, model, outDir)
		fmt.Fprintf(&b, "\nreplay against real code: %s\n%s\n", map[bool]string{true: "CONFIRMED (test fails on the real code)", false: "not confirmed"}[ok], log)
		confirmed = ok
		fmt.Fprintf(&b, "\nfull model:\n%s\n", v.Model)
	} else {
		fmt.Fprintf(&b, "\nno model (solver answered %s)\n", v.Result)
		// a typed builder that takes nothing from the model scripts the failing path the obligation
		// names; it can be run against the real code without a model
		if c := v.Obl.fc; c != nil && c.fn != nil && c.lemma == nil {
			if bp := builderPath(o, c); bp != "" {
				if data, err := os.ReadFile(bp); err == nil && !strings.Contains(string(data), "{{spec:") {
					ok, log := c.replayWithBuilder(o, v, outDir, bp)
					fmt.Fprintf(&b, "\nscripted replay against real code (typed builder, no model values needed): %s\n%s\n",
						map[bool]string{true: "CONFIRMED (test fails on the real code)", false: "not confirmed"}[ok], log)
					confirmed = ok
				}
			}
		}
		if !confirmed {
			fmt.Fprintf(&b, "no-failing-input-found\n")
		}
	}
	_ = os.WriteFile(path, []byte(b.String()), 0o644)
	return replayResult{path, confirmed}
}

// parseModel extracts (define-fun name () Sort value) entries.
func parseModel(s string) map[string]string {
	m := map[string]string{}
	i := 0
	for {
		k := strings.Index(s[i:], "(define-fun ")
		if k < 0 {
			break
		}
		k += i
		// find matching paren
		depth := 0
		j := k
		for ; j < len(s); j++ {
			if s[j] == '(' {
				depth++
			} else if s[j] == ')' {
				depth--
				if depth == 0 {
					break
				}
			}
		}
		entry := s[k : j+1]
		i = j + 1
		body := strings.TrimPrefix(entry, "(define-fun ")
		sp := strings.IndexAny(body, " \n")
		if sp < 0 {
			continue
		}
		name := body[:sp]
		rest := strings.TrimSpace(body[sp:])
		if !strings.HasPrefix(rest, "()") {
			continue
		}
		rest = strings.TrimSpace(rest[2:])
		// sort then value
		si := splitSort(rest)
		val := strings.TrimSpace(rest[si:])
		val = strings.TrimSuffix(val, ")")
		m[name] = strings.Join(strings.Fields(val), " ")
	}
	return m
}
