package main

// runReplay instantiates a typed builder for the function of a failed obligation, if one exists.
func runReplay(o *options, g *Gen, v *Verdict, model map[string]string, outDir string) (bool, string) {
	return false, "no typed builder registered for this function"
}
