package main

import (
	"bytes"
	"context"
	"encoding/json"
	"fmt"
	"go/types"
	"os"
	"os/exec"
	"path/filepath"
	"strings"
	"time"
)

// ---------------------------------------------------------------------------
// Model values: a second solver run asks for the value of every input leaf.

type valuePlan struct {
	terms []string
}

func (p *valuePlan) ask(t Term) string {
	p.terms = append(p.terms, t.S)
	return t.S
}

const maxReplayElems = 24

// planValue registers the leaves needed to rebuild a Go value of type t from term v.
func (c *FnCtx) planValue(p *valuePlan, v Term, t types.Type, depth int) {
	t = types.Unalias(t)
	switch tt := t.Underlying().(type) {
	case *types.Basic:
		p.ask(v)
	case *types.Struct:
		if v.Sort == SInt {
			return
		}
		info := c.g.u.structInfoOf(v.Sort)
		if info == nil {
			return
		}
		for i := 0; i < tt.NumFields() && i < len(info.fields); i++ {
			c.planValue(p, c.g.u.field(v, i), tt.Field(i).Type(), depth)
		}
	case *types.Slice:
		p.ask(sLen(v))
		p.ask(sBase(v))
		if depth <= 0 {
			return
		}
		key, hs := c.g.elemHeapKey(tt.Elem())
		h := c.heap(c.entry, key, hs)
		for i := 0; i < maxReplayElems; i++ {
			c.planValue(p, sel(sel(h, sBase(v)), eidx(sOff(v), intLit(int64(i)))), tt.Elem(), depth-1)
		}
	case *types.Pointer:
		p.ask(v)
		if depth <= 0 {
			return
		}
		if _, isArr := tt.Elem().Underlying().(*types.Array); isArr {
			return
		}
		key, hs := c.g.heapKeyFor(tt.Elem())
		h := c.heap(c.entry, key, hs)
		c.planValue(p, sel(h, v), tt.Elem(), depth-1)
	case *types.Array:
		for i := int64(0); i < tt.Len() && i < maxReplayElems; i++ {
			c.planValue(p, sel(v, intLit(i)), tt.Elem(), depth)
		}
	default:
		if v.Sort == SInt || v.Sort == SBool {
			p.ask(v)
		}
	}
}

type goBuilder struct {
	c       *FnCtx
	vals    map[string]string
	imports map[string]string // path -> name
	pkg     *types.Package
	partial []string
}

func (b *goBuilder) qual(p *types.Package) string {
	if p == b.pkg {
		return ""
	}
	b.imports[p.Path()] = p.Name()
	return p.Name()
}

func (b *goBuilder) typeStr(t types.Type) string { return types.TypeString(t, b.qual) }

func (b *goBuilder) intVal(t Term) (string, bool) {
	v, ok := b.vals[t.S]
	if !ok {
		return "0", false
	}
	v = strings.TrimSpace(v)
	if strings.HasPrefix(v, "(-") {
		v = "-" + strings.TrimSpace(strings.TrimSuffix(strings.TrimPrefix(v, "(-"), ")"))
	}
	return v, true
}

// goValue renders a Go expression of type t for the model value of v.
func (b *goBuilder) goValue(v Term, t types.Type, depth int) string {
	t0 := t
	t = types.Unalias(t)
	c := b.c
	switch tt := t.Underlying().(type) {
	case *types.Basic:
		s, _ := b.intVal(v)
		switch {
		case tt.Info()&types.IsBoolean != 0:
			if s == "true" {
				return b.typeStr(t0) + "(true)"
			}
			return b.typeStr(t0) + "(false)"
		case tt.Info()&types.IsInteger != 0:
			return fmt.Sprintf("%s(%s)", b.typeStr(t0), s)
		case tt.Info()&types.IsString != 0:
			// strings are interned constants in the model: map the id back to its literal
			var id int
			fmt.Sscanf(s, "%d", &id)
			for lit, k := range c.g.u.strIDs {
				if k == id {
					return fmt.Sprintf("%s(%q)", b.typeStr(t0), lit)
				}
			}
			if id != 0 {
				b.partial = append(b.partial, "string value not reconstructed")
				return fmt.Sprintf("%s(\"verif-str-%d\")", b.typeStr(t0), id)
			}
			return b.typeStr(t0) + "(\"\")"
		}
		return fmt.Sprintf("%s(0)", b.typeStr(t0))
	case *types.Struct:
		info := c.g.u.structInfoOf(v.Sort)
		if info == nil {
			return b.typeStr(t0) + "{}"
		}
		var fs []string
		for i := 0; i < tt.NumFields() && i < len(info.fields); i++ {
			f := tt.Field(i)
			if !f.Exported() && f.Pkg() != b.pkg {
				b.partial = append(b.partial, "unexported field "+f.Name()+" of another package left zero")
				continue
			}
			fs = append(fs, fmt.Sprintf("%s: %s", f.Name(), b.goValue(c.g.u.field(v, i), f.Type(), depth)))
		}
		return fmt.Sprintf("%s{%s}", b.typeStr(t0), strings.Join(fs, ", "))
	case *types.Slice:
		ln, _ := b.intVal(sLen(v))
		base, _ := b.intVal(sBase(v))
		if base == "0" {
			return fmt.Sprintf("%s(nil)", b.typeStr(t0))
		}
		var n int
		fmt.Sscanf(ln, "%d", &n)
		if n > maxReplayElems {
			b.partial = append(b.partial, fmt.Sprintf("slice of length %d truncated to %d known elements (rest zero)", n, maxReplayElems))
		}
		if n > 1<<20 {
			b.partial = append(b.partial, "huge slice skipped")
			n = maxReplayElems
		}
		key, hs := c.g.elemHeapKey(tt.Elem())
		h := c.heap(c.entry, key, hs)
		var elems []string
		for i := 0; i < n && i < maxReplayElems; i++ {
			if depth <= 0 {
				break
			}
			elems = append(elems, b.goValue(sel(sel(h, sBase(v)), eidx(sOff(v), intLit(int64(i)))), tt.Elem(), depth-1))
		}
		lit := fmt.Sprintf("%s{%s}", b.typeStr(t0), strings.Join(elems, ", "))
		if n > len(elems) {
			return fmt.Sprintf("append(%s, make(%s, %d)...)", lit, b.typeStr(t0), n-len(elems))
		}
		return lit
	case *types.Pointer:
		p, _ := b.intVal(v)
		if p == "0" || depth <= 0 {
			return fmt.Sprintf("(%s)(nil)", b.typeStr(t0))
		}
		if _, isArr := tt.Elem().Underlying().(*types.Array); isArr {
			return fmt.Sprintf("new(%s)", b.typeStr(tt.Elem()))
		}
		key, hs := c.g.heapKeyFor(tt.Elem())
		h := c.heap(c.entry, key, hs)
		inner := b.goValue(sel(h, v), tt.Elem(), depth-1)
		return fmt.Sprintf("func() %s { x := %s; return &x }()", b.typeStr(t0), inner)
	case *types.Array:
		var elems []string
		for i := int64(0); i < tt.Len() && i < maxReplayElems; i++ {
			elems = append(elems, b.goValue(sel(v, intLit(i)), tt.Elem(), depth))
		}
		return fmt.Sprintf("%s{%s}", b.typeStr(t0), strings.Join(elems, ", "))
	case *types.Interface:
		b.partial = append(b.partial, "interface value left nil")
		return "nil"
	}
	b.partial = append(b.partial, "value of type "+t.String()+" left zero")
	return fmt.Sprintf("*new(%s)", b.typeStr(t0))
}

// fetchValues re-runs the winning solver with get-value for the planned terms.
func fetchValues(v *Verdict, plan *valuePlan, u *Universe) (map[string]string, error) {
	if len(plan.terms) == 0 {
		return map[string]string{}, nil
	}
	data, err := os.ReadFile(v.File)
	if err != nil {
		return nil, err
	}
	text := string(data)
	text = strings.Replace(text, "(check-sat)\n(get-model)\n", "", 1)
	// declarations for symbols that only the plan mentions (entry heaps touched by planning)
	extra := u.prelude(text + strings.Join(plan.terms, " "))
	_ = extra
	var b strings.Builder
	// rebuild: header + full prelude covering plan symbols + body assertions
	lines := strings.SplitN(text, "(set-logic ALL)\n", 2)
	b.WriteString("(set-option :produce-models true)\n(set-logic ALL)\n")
	b.WriteString(u.prelude(v.Obl.Body + strings.Join(plan.terms, " ")))
	b.WriteString(v.Obl.Body)
	_ = lines
	head := b.String()
	ctx, cancel := context.WithTimeout(context.Background(), 120*time.Second)
	defer cancel()
	// Any model of the failed obligation is a counterexample; prefer a small one (short slices), which
	// the replay can rebuild completely. Smallness constraints are dropped step by step.
	for _, maxLen := range []int{3, 8, maxReplayElems, -1} {
		var q strings.Builder
		q.WriteString(head)
		if maxLen >= 0 {
			for _, t := range plan.terms {
				if strings.HasPrefix(t, "(s_len ") {
					fmt.Fprintf(&q, "(assert (<= %s %d))\n", t, maxLen)
				}
			}
		}
		q.WriteString("(check-sat)\n(get-value (")
		for _, t := range plan.terms {
			q.WriteString(t)
			q.WriteString("\n")
		}
		q.WriteString("))\n")
		f := v.File + ".values.smt2"
		if err := os.WriteFile(f, []byte(q.String()), 0o644); err != nil {
			return nil, err
		}
		order := []string{v.Solver, "z3-new", "z3", "cvc5"}
		tried := map[string]bool{}
		for _, name := range order {
			if tried[name] {
				continue
			}
			tried[name] = true
			for _, sd := range solvers {
				if sd.name != name {
					continue
				}
				res, out := runSolver(ctx, sd, f, 15)
				if res != "sat" {
					continue
				}
				k := strings.Index(out, "\n")
				vals := parseValuePairs(out[k+1:])
				if len(vals) > 0 {
					return vals, nil
				}
			}
		}
	}
	return nil, fmt.Errorf("no solver reproduced the model")
}

// parseValuePairs parses "((term value) (term value) ...)" keyed by the normalised term text.
func parseValuePairs(s string) map[string]string {
	out := map[string]string{}
	s = strings.TrimSpace(s)
	if !strings.HasPrefix(s, "(") {
		return out
	}
	// top-level list
	i := 1
	for i < len(s) {
		for i < len(s) && (s[i] == ' ' || s[i] == '\n') {
			i++
		}
		if i >= len(s) || s[i] != '(' {
			break
		}
		// pair
		j := matchParen(s, i)
		pair := s[i+1 : j]
		// first sexpr = term
		k := sexprEnd(pair, 0)
		term := normSpace(pair[:k])
		val := normSpace(pair[k:])
		out[term] = val
		i = j + 1
	}
	return out
}

func matchParen(s string, i int) int {
	depth := 0
	for j := i; j < len(s); j++ {
		if s[j] == '(' {
			depth++
		} else if s[j] == ')' {
			depth--
			if depth == 0 {
				return j
			}
		}
	}
	return len(s) - 1
}

func sexprEnd(s string, i int) int {
	for i < len(s) && (s[i] == ' ' || s[i] == '\n') {
		i++
	}
	if i < len(s) && s[i] == '(' {
		return matchParen(s, i) + 1
	}
	for i < len(s) && s[i] != ' ' && s[i] != '\n' {
		i++
	}
	return i
}

func normSpace(s string) string { return strings.Join(strings.Fields(s), " ") }

// ---------------------------------------------------------------------------
// Spec -> Go translation (dynamic helpers; integers are *big.Int)

type goTrans struct {
	c       *FnCtx
	names   map[string]string // spec identifier -> Go expression
	olds    map[string]string // spec identifier -> Go expression holding the pre-call copy
	notes   []string
	imports map[string]string
	tmp     int
}

const replayHelpers = `
func vI(x any) any {
	v := reflect.ValueOf(x)
	switch v.Kind() {
	case reflect.Int, reflect.Int8, reflect.Int16, reflect.Int32, reflect.Int64:
		return big.NewInt(v.Int())
	case reflect.Uint, reflect.Uint8, reflect.Uint16, reflect.Uint32, reflect.Uint64, reflect.Uintptr:
		return new(big.Int).SetUint64(v.Uint())
	}
	return x
}
func vBig(a any) *big.Int {
	if b, ok := a.(*big.Int); ok {
		return b
	}
	if b, ok := vI(a).(*big.Int); ok {
		return b
	}
	panic("verif replay: integer expected")
}
func vNil(a any) bool {
	if a == nil {
		return true
	}
	v := reflect.ValueOf(a)
	switch v.Kind() {
	case reflect.Ptr, reflect.Slice, reflect.Map, reflect.Interface, reflect.Func, reflect.Chan:
		return v.IsNil()
	}
	return false
}
func vEq(a, b any) bool {
	if b == nil {
		return vNil(a)
	}
	if a == nil {
		return vNil(b)
	}
	x, ok1 := a.(*big.Int)
	y, ok2 := b.(*big.Int)
	if ok1 && ok2 {
		return x.Cmp(y) == 0
	}
	if ok1 || ok2 {
		return vBig(a).Cmp(vBig(b)) == 0
	}
	return reflect.DeepEqual(a, b)
}
func vLt(a, b any) bool  { return vBig(a).Cmp(vBig(b)) < 0 }
func vLe(a, b any) bool  { return vBig(a).Cmp(vBig(b)) <= 0 }
func vAdd(a, b any) any  { return new(big.Int).Add(vBig(a), vBig(b)) }
func vSub(a, b any) any  { return new(big.Int).Sub(vBig(a), vBig(b)) }
func vMul(a, b any) any  { return new(big.Int).Mul(vBig(a), vBig(b)) }
func vQuo(a, b any) any  { return new(big.Int).Quo(vBig(a), vBig(b)) }
func vRem(a, b any) any  { return new(big.Int).Rem(vBig(a), vBig(b)) }
func vDiv(a, b any) any  { return new(big.Int).Div(vBig(a), vBig(b)) }
func vMod(a, b any) any  { return new(big.Int).Mod(vBig(a), vBig(b)) }
func vNeg(a any) any     { return new(big.Int).Neg(vBig(a)) }
func vInt(a any) int     { return int(vBig(a).Int64()) }
func vAll(lo, hi any, f func(i int) bool) bool {
	l, h := vBig(lo).Int64(), vBig(hi).Int64()
	if h-l > 1<<16 {
		h = l + 1<<16
	}
	for i := l; i < h; i++ {
		if !f(int(i)) {
			return false
		}
	}
	return true
}
func vAny(lo, hi any, f func(i int) bool) bool {
	return !vAll(lo, hi, func(i int) bool { return !f(i) })
}
func vBool(a any) bool { b, _ := a.(bool); return b }
func vHas(m any, k any) bool {
	mv := reflect.ValueOf(m)
	if mv.Kind() != reflect.Map || mv.IsNil() {
		return false
	}
	kv := reflect.New(mv.Type().Key()).Elem()
	switch kv.Kind() {
	case reflect.Int, reflect.Int8, reflect.Int16, reflect.Int32, reflect.Int64:
		b := vBig(k)
		if !b.IsInt64() {
			return false
		}
		kv.SetInt(b.Int64())
	case reflect.Uint, reflect.Uint8, reflect.Uint16, reflect.Uint32, reflect.Uint64, reflect.Uintptr:
		b := vBig(k)
		if !b.IsUint64() {
			return false
		}
		kv.SetUint(b.Uint64())
	default:
		kv = reflect.ValueOf(k)
	}
	return mv.MapIndex(kv).IsValid()
}
var _ = errors.Is
`

// raw: plain Go expression (for call arguments)
func (g *goTrans) raw(e Expr) (string, bool) {
	switch x := e.(type) {
	case *EInt:
		return x.Val, true
	case *EBool:
		return fmt.Sprint(x.Val), true
	case *ENil:
		return "nil", true
	case *EStr:
		return fmt.Sprintf("%q", x.Val), true
	case *EIdent:
		if n, ok := g.names[x.Name]; ok {
			return n, true
		}
		if cd, ok := g.c.g.contracts.Consts[x.Name]; ok {
			return g.raw(cd.E)
		}
		return x.Name, true
	case *ESel:
		b, ok := g.raw(x.X)
		return b + "." + x.Name, ok
	case *EIndex:
		b, ok1 := g.raw(x.X)
		i, ok2 := g.raw(x.I)
		return b + "[" + i + "]", ok1 && ok2
	case *ESlice:
		b, ok := g.raw(x.X)
		lo, hi := "", ""
		if x.Lo != nil {
			lo, _ = g.raw(x.Lo)
		}
		if x.Hi != nil {
			hi, _ = g.raw(x.Hi)
		}
		return b + "[" + lo + ":" + hi + "]", ok
	case *EBinary:
		a, ok1 := g.raw(x.X)
		b, ok2 := g.raw(x.Y)
		switch x.Op {
		case "+", "-", "*", "/", "%", "==", "!=", "<", "<=", ">", ">=", "&&", "||":
			return "(" + a + " " + x.Op + " " + b + ")", ok1 && ok2
		}
		return "", false
	case *EUnary:
		a, ok := g.raw(x.X)
		return "(" + x.Op + a + ")", ok
	case *ECall:
		var as []string
		ok := true
		for _, a := range x.Args {
			s, o := g.raw(a)
			ok = ok && o
			as = append(as, s)
		}
		f, o := g.raw(x.Fun)
		return f + "(" + strings.Join(as, ", ") + ")", ok && o
	}
	return "", false
}

// dyn: expression evaluated with the dynamic helpers; returns Go source of type any (or bool for
// propositions when asBool).
func (g *goTrans) val(e Expr) string {
	switch x := e.(type) {
	case *EInt:
		return fmt.Sprintf("func() any { b, _ := new(big.Int).SetString(%q, 0); return b }()", x.Val)
	case *EBool:
		return fmt.Sprint(x.Val)
	case *ENil:
		return "nil"
	case *EStr:
		return fmt.Sprintf("%q", x.Val)
	case *EIdent:
		if cd, ok := g.c.g.contracts.Consts[x.Name]; ok {
			if _, bound := g.names[x.Name]; !bound {
				return g.val(cd.E)
			}
		}
		r, _ := g.raw(x)
		return "vI(" + r + ")"
	case *ESel, *EIndex, *ESlice:
		r, _ := g.raw(e)
		return "vI(" + r + ")"
	case *EOld:
		sub := &goTrans{c: g.c, names: map[string]string{}, olds: g.olds, imports: g.imports}
		for k, v := range g.names {
			sub.names[k] = v
		}
		for k, v := range g.olds {
			sub.names[k] = v
		}
		s := sub.val(x.X)
		g.notes = append(g.notes, sub.notes...)
		return s
	case *EUnary:
		if x.Op == "!" {
			return "(!" + g.boolE(x.X) + ")"
		}
		return "vNeg(" + g.val(x.X) + ")"
	case *ECond:
		return fmt.Sprintf("func() any { if %s { return %s }; return %s }()", g.boolE(x.C), g.val(x.A), g.val(x.B))
	case *EBinary:
		switch x.Op {
		case "+":
			return "vAdd(" + g.val(x.X) + ", " + g.val(x.Y) + ")"
		case "-":
			return "vSub(" + g.val(x.X) + ", " + g.val(x.Y) + ")"
		case "*":
			return "vMul(" + g.val(x.X) + ", " + g.val(x.Y) + ")"
		case "/":
			return "vQuo(" + g.val(x.X) + ", " + g.val(x.Y) + ")"
		case "%":
			return "vRem(" + g.val(x.X) + ", " + g.val(x.Y) + ")"
		}
		return g.boolE(e)
	case *EQuant:
		return g.boolE(e)
	case *ECall:
		if id, ok := x.Fun.(*EIdent); ok {
			switch id.Name {
			case "len", "cap":
				r, _ := g.raw(x.Args[0])
				return "vI(" + id.Name + "(" + r + "))"
			case "mod":
				return "vMod(" + g.val(x.Args[0]) + ", " + g.val(x.Args[1]) + ")"
			case "div":
				return "vDiv(" + g.val(x.Args[0]) + ", " + g.val(x.Args[1]) + ")"
			case "has":
				m, _ := g.raw(x.Args[0])
				return "vHas(" + m + ", " + g.val(x.Args[1]) + ")"
			case "is":
				a, _ := g.raw(x.Args[0])
				b, _ := g.raw(x.Args[1])
				return "errors.Is(" + a + ", " + b + ")"
			case "isFresh", "sameArray":
				g.notes = append(g.notes, id.Name+" is not executable: taken as true")
				return "true"
			case "bytesEq":
				a, _ := g.raw(x.Args[0])
				b, _ := g.raw(x.Args[1])
				return "reflect.DeepEqual([]byte(" + a + "), []byte(" + b + "))"
			}
			if pf, ok := g.c.g.contracts.Pures[id.Name]; ok && pf.Body != nil && !pf.Rec {
				// inline: bind parameters to temporaries
				sub := &goTrans{c: g.c, names: map[string]string{}, olds: g.olds, imports: g.imports}
				for k, v := range g.names {
					sub.names[k] = v
				}
				var binds []string
				for i, p := range pf.Params {
					g.tmp++
					tn := fmt.Sprintf("sp%d_%s", g.tmp, p.Name)
					a, ok := g.raw(x.Args[i])
					if !ok {
						a = "vInt(" + g.val(x.Args[i]) + ")"
					} else if isIntTypeName(p.Type) {
						a = "vInt(" + g.val(x.Args[i]) + ")"
					}
					binds = append(binds, fmt.Sprintf("%s := %s; _ = %s", tn, a, tn))
					sub.names[p.Name] = tn
				}
				sub.tmp = g.tmp + 100
				body := sub.val(pf.Body)
				g.notes = append(g.notes, sub.notes...)
				return fmt.Sprintf("func() any { %s; return %s }()", strings.Join(binds, "; "), body)
			}
		}
		r, ok := g.raw(e)
		if !ok {
			g.notes = append(g.notes, "call not executable: "+e.exprString())
			return "true"
		}
		return "vI(" + r + ")"
	}
	return "true"
}

func isIntTypeName(s string) bool {
	switch s {
	case "int", "int64", "uint64", "uint", "int32", "uint32", "uint16", "uint8", "byte":
		return true
	}
	return false
}

func (g *goTrans) boolE(e Expr) string {
	switch x := e.(type) {
	case *EBool:
		return fmt.Sprint(x.Val)
	case *EUnary:
		if x.Op == "!" {
			return "(!" + g.boolE(x.X) + ")"
		}
	case *EBinary:
		switch x.Op {
		case "&&":
			return "(" + g.boolE(x.X) + " && " + g.boolE(x.Y) + ")"
		case "||":
			return "(" + g.boolE(x.X) + " || " + g.boolE(x.Y) + ")"
		case "==>":
			return "(!" + g.boolE(x.X) + " || " + g.boolE(x.Y) + ")"
		case "<==>":
			return "(" + g.boolE(x.X) + " == " + g.boolE(x.Y) + ")"
		case "==":
			return "vEq(" + g.val(x.X) + ", " + g.val(x.Y) + ")"
		case "!=":
			return "(!vEq(" + g.val(x.X) + ", " + g.val(x.Y) + "))"
		case "<":
			return "vLt(" + g.val(x.X) + ", " + g.val(x.Y) + ")"
		case "<=":
			return "vLe(" + g.val(x.X) + ", " + g.val(x.Y) + ")"
		case ">":
			return "vLt(" + g.val(x.Y) + ", " + g.val(x.X) + ")"
		case ">=":
			return "vLe(" + g.val(x.Y) + ", " + g.val(x.X) + ")"
		}
	case *EQuant:
		if len(x.Vars) >= 1 {
			if lo, hi, body, ok := quantBounds(x); ok {
				sub := &goTrans{c: g.c, names: map[string]string{}, olds: g.olds, imports: g.imports, tmp: g.tmp + 1000}
				for k, v := range g.names {
					sub.names[k] = v
				}
				g.tmp++
				iv := fmt.Sprintf("q%d_%s", g.tmp, x.Vars[0].Name)
				sub.names[x.Vars[0].Name] = iv
				fn := "vAll"
				if !x.Forall {
					fn = "vAny"
				}
				s := fmt.Sprintf("%s(%s, %s, func(%s int) bool { return %s })", fn, g.val(lo), g.val(hi), iv, sub.boolE(body))
				g.notes = append(g.notes, sub.notes...)
				return s
			}
		}
		g.notes = append(g.notes, "quantifier not executable: taken as true: "+e.exprString())
		return "true"
	case *ECond:
		return fmt.Sprintf("func() bool { if %s { return %s }; return %s }()", g.boolE(x.C), g.boolE(x.A), g.boolE(x.B))
	}
	// a boolean-valued leaf
	v := g.val(e)
	if strings.HasPrefix(v, "vI(") {
		r, _ := g.raw(e)
		return "bool(" + r + ")"
	}
	if strings.HasPrefix(v, "func() any") {
		return "vBool(" + v + ")"
	}
	return v
}

// quantBounds recognises "forall i :: lo <= i && i < hi ==> body" (and the exists analogue with &&).
func quantBounds(q *EQuant) (lo, hi, body Expr, ok bool) {
	name := q.Vars[0].Name
	var guard Expr
	switch b := q.Body.(type) {
	case *EBinary:
		if q.Forall && b.Op == "==>" {
			guard, body = b.X, b.Y
			// a chain of implications: all antecedents are guards
			for {
				nb, isB := body.(*EBinary)
				if !isB || nb.Op != "==>" {
					break
				}
				guard = &EBinary{"&&", guard, nb.X}
				body = nb.Y
			}
		} else if !q.Forall && b.Op == "&&" {
			guard, body = b.X, b.Y
		}
	}
	if guard == nil {
		return
	}
	var conj []Expr
	var flat func(e Expr)
	flat = func(e Expr) {
		if b, isB := e.(*EBinary); isB && b.Op == "&&" {
			flat(b.X)
			flat(b.Y)
			return
		}
		conj = append(conj, e)
	}
	flat(guard)
	var rest []Expr
	for _, c := range conj {
		b, isB := c.(*EBinary)
		if isB {
			if id, isID := b.Y.(*EIdent); isID && id.Name == name && b.Op == "<=" && lo == nil {
				lo = b.X
				continue
			}
			if id, isID := b.X.(*EIdent); isID && id.Name == name && b.Op == "<" && hi == nil {
				hi = b.Y
				continue
			}
			if id, isID := b.X.(*EIdent); isID && id.Name == name && b.Op == ">=" && lo == nil {
				lo = b.Y
				continue
			}
			if id, isID := b.X.(*EIdent); isID && id.Name == name && b.Op == "<=" && hi == nil {
				hi = &EBinary{"+", b.Y, &EInt{"1"}}
				continue
			}
		}
		rest = append(rest, c)
	}
	if lo == nil || hi == nil {
		return nil, nil, nil, false
	}
	for _, r := range rest {
		if q.Forall {
			body = &EBinary{"==>", r, body}
		} else {
			body = &EBinary{"&&", r, body}
		}
	}
	if len(q.Vars) > 1 {
		// the remaining variables are bound by an inner quantifier of the same kind
		body = &EQuant{Forall: q.Forall, Vars: q.Vars[1:], Body: body}
	}
	return lo, hi, body, true
}

// ---------------------------------------------------------------------------
// runReplay: build the test, run it on the real code with -overlay.

func runReplay(o *options, g *Gen, v *Verdict, model map[string]string, outDir string) (bool, string) {
	c := v.Obl.fc
	if c == nil {
		return false, "no function context"
	}
	if c.lemma != nil {
		return c.replayLemma(o, v, outDir)
	}
	if c.fn == nil {
		return false, "no function"
	}
	return c.replayFunc(o, v, outDir)
}

// replayWithBuilder: a typed builder is a Go test file with {{spec:EXPR}} placeholders; each EXPR is a
// spec expression over the function's parameters, replaced by its integer value in the model.
func (c *FnCtx) replayWithBuilder(o *options, v *Verdict, outDir, tmplPath string) (bool, string) {
	data, err := os.ReadFile(tmplPath)
	if err != nil {
		return false, err.Error()
	}
	text := string(data)
	plan := &valuePlan{}
	type ph struct {
		raw  string
		term string
	}
	var phs []ph
	rest := text
	for {
		i := strings.Index(rest, "{{spec:")
		if i < 0 {
			break
		}
		j := strings.Index(rest[i:], "}}")
		if j < 0 {
			break
		}
		raw := rest[i : i+j+2]
		expr := rest[i+7 : i+j]
		rest = rest[i+j+2:]
		e, err := parseSpecExpr(expr)
		if err != nil {
			return false, "builder placeholder: " + err.Error()
		}
		tv, err := c.evalSpec(e, c.envFor(c.entry, c.entry))
		if err != nil {
			return false, "builder placeholder: " + err.Error()
		}
		phs = append(phs, ph{raw, plan.ask(tv.t)})
	}
	vals, err := fetchValues(v, plan, c.g.u)
	if err != nil {
		return false, "model values: " + err.Error()
	}
	b := &goBuilder{c: c, vals: vals}
	for _, p := range phs {
		val, _ := b.intVal(Term{p.term, SInt})
		if val == "true" {
			val = "1"
		} else if val == "false" {
			val = "0"
		}
		text = strings.ReplaceAll(text, p.raw, val)
	}
	pkgName := "main"
	for _, l := range strings.Split(text, "\n") {
		if strings.HasPrefix(l, "package ") {
			pkgName = strings.TrimSpace(strings.TrimPrefix(l, "package "))
			break
		}
	}
	_ = pkgName
	goFile := filepath.Join(outDir, "replay_"+sanitizeFile(v.Obl.Name)+"_test.go")
	if err := os.WriteFile(goFile, []byte(text), 0o644); err != nil {
		return false, err.Error()
	}
	return c.execGoTest(o, goFile, c.fn.Pkg.Pkg, nil)
}

func builderPath(o *options, c *FnCtx) string {
	name := c.pkgName() + "." + sanitizeFile(c.spec.Name) + ".go.tmpl"
	p := filepath.Join(o.replayD, "builders", name)
	if _, err := os.Stat(p); err == nil {
		return p
	}
	return ""
}

func (c *FnCtx) replayFunc(o *options, v *Verdict, outDir string) (bool, string) {
	fn := c.fn
	if bp := builderPath(o, c); bp != "" {
		return c.replayWithBuilder(o, v, outDir, bp)
	}
	plan := &valuePlan{}
	for _, p := range fn.Params {
		c.planValue(plan, c.regs[p].t, p.Type(), 2)
	}
	vals, err := fetchValues(v, plan, c.g.u)
	if err != nil {
		return false, "model values: " + err.Error()
	}
	b := &goBuilder{c: c, vals: vals, imports: map[string]string{}, pkg: fn.Pkg.Pkg}
	var decl strings.Builder
	tr := &goTrans{c: c, names: map[string]string{}, olds: map[string]string{}, imports: b.imports}
	var argNames []string
	for i, p := range fn.Params {
		name := p.Name()
		if name == "" || name == "_" {
			name = fmt.Sprintf("arg%d", i)
		}
		gv := "p_" + name
		fmt.Fprintf(&decl, "\t%s := %s\n\t_ = %s\n", gv, b.goValue(c.regs[p].t, p.Type(), 2), gv)
		tr.names[p.Name()] = gv
		if _, isSlice := p.Type().Underlying().(*types.Slice); isSlice {
			fmt.Fprintf(&decl, "\told_%s := append(%s(nil), %s...)\n\t_ = old_%s\n", name, b.typeStr(p.Type()), gv, name)
			tr.olds[p.Name()] = "old_" + name
		}
		argNames = append(argNames, gv)
	}
	// call
	sig := fn.Signature
	var call string
	if sig.Recv() != nil {
		call = fmt.Sprintf("%s.%s(%s)", argNames[0], fn.Name(), strings.Join(argNames[1:], ", "))
	} else if fn.Parent() != nil {
		return false, "closures cannot be replayed directly"
	} else {
		call = fmt.Sprintf("%s(%s)", fn.Name(), strings.Join(argNames, ", "))
	}
	if sig.Variadic() {
		call = strings.TrimSuffix(call, ")") + "...)"
	}
	var resNames []string
	for i := 0; i < sig.Results().Len(); i++ {
		rn := fmt.Sprintf("res%d", i)
		resNames = append(resNames, rn)
		rv := sig.Results().At(i)
		tr.names[fmt.Sprintf("result%d", i)] = rn
		if i == 0 {
			tr.names["result"] = rn
		}
		if rv.Name() != "" && rv.Name() != "_" {
			tr.names[rv.Name()] = rn
		}
		if i == sig.Results().Len()-1 && isErrorType(rv.Type()) {
			tr.names["err"] = rn
		}
	}
	var body strings.Builder
	body.WriteString(decl.String())
	// preconditions must hold for the model to be a legal input
	for _, cl := range c.spec.Requires {
		fmt.Fprintf(&body, "\tif !(%s) {\n\t\tt.Skip(\"VERIF-REPLAY: model does not satisfy requires: %s\")\n\t}\n", tr.boolE(cl.E), escapeQ(cl.Text))
	}
	if len(resNames) > 0 {
		fmt.Fprintf(&body, "\t%s := %s\n", strings.Join(resNames, ", "), call)
		for _, r := range resNames {
			fmt.Fprintf(&body, "\t_ = %s\n", r)
		}
	} else {
		fmt.Fprintf(&body, "\t%s\n", call)
	}
	switch v.Obl.Kind {
	case "post":
		// which clause: name is ...#post:<k>@retN
		var k int
		if i := strings.Index(v.Obl.Name, "#post:"); i >= 0 {
			fmt.Sscanf(v.Obl.Name[i+6:], "%d", &k)
		}
		if k < 1 || k > len(c.spec.Ensures) {
			return false, "cannot identify the violated clause"
		}
		cl := c.spec.Ensures[k-1]
		fmt.Fprintf(&body, "\tif !(%s) {\n\t\tt.Fatalf(\"VERIF-REPLAY VIOLATED: ensures %s\")\n\t}\n", tr.boolE(cl.E), escapeQ(cl.Text))
	case "nopanic", "bounds", "nil", "div0", "typeassert", "makeslice":
		// the expected failure is a panic, caught by the deferred recover
	default:
		return false, "obligation kind " + v.Obl.Kind + " has no executable form"
	}
	return c.runGoTest(o, v, outDir, fn.Pkg.Pkg, body.String(), b, tr)
}

func escapeQ(s string) string {
	s = strings.ReplaceAll(s, "\\", "\\\\")
	s = strings.ReplaceAll(s, "\"", "\\\"")
	return strings.ReplaceAll(s, "%", "%%")
}

func (c *FnCtx) replayLemma(o *options, v *Verdict, outDir string) (bool, string) {
	l := c.lemma
	plan := &valuePlan{}
	pkg := c.g.typesPkg(l.Pkg)
	for _, lv := range l.Vars {
		tv := c.lemmaVars[lv.Name]
		c.planValue(plan, tv.t, tv.typ, 2)
	}
	vals, err := fetchValues(v, plan, c.g.u)
	if err != nil {
		return false, "model values: " + err.Error()
	}
	b := &goBuilder{c: c, vals: vals, imports: map[string]string{}, pkg: pkg}
	tr := &goTrans{c: c, names: map[string]string{}, olds: map[string]string{}, imports: b.imports}
	var body strings.Builder
	for _, lv := range l.Vars {
		tv := c.lemmaVars[lv.Name]
		fmt.Fprintf(&body, "\t%s := %s\n\t_ = %s\n", lv.Name, b.goValue(tv.t, tv.typ, 2), lv.Name)
	}
	nAssert := 0
	for _, s := range l.Stmts {
		switch s.Kind {
		case "assume":
			fmt.Fprintf(&body, "\tif !(%s) {\n\t\tt.Skip(\"VERIF-REPLAY: real code does not meet lemma assumption: %s\")\n\t}\n", tr.boolE(s.E), escapeQ(s.Text))
		case "assert":
			nAssert++
			fmt.Fprintf(&body, "\tif !(%s) {\n\t\tt.Fatalf(\"VERIF-REPLAY VIOLATED: lemma %s assert %d: %s\")\n\t}\n", tr.boolE(s.E), l.Name, nAssert, escapeQ(s.Text))
		case "let":
			r, ok := tr.raw(s.E)
			if !ok {
				return false, "lemma call not executable: " + s.Text
			}
			fmt.Fprintf(&body, "\t%s := %s\n", strings.Join(s.Names, ", "), r)
			for _, n := range s.Names {
				if n != "_" {
					fmt.Fprintf(&body, "\t_ = %s\n", n)
				}
			}
		case "var":
			return false, "lemma with havocked variables cannot be replayed"
		}
	}
	return c.runGoTest(o, v, outDir, pkg, body.String(), b, tr)
}

func (c *FnCtx) runGoTest(o *options, v *Verdict, outDir string, pkg *types.Package, body string, b *goBuilder, tr *goTrans) (bool, string) {
	var src strings.Builder
	fmt.Fprintf(&src, "package %s\n\nimport (\n\t\"errors\"\n\t\"math/big\"\n\t\"reflect\"\n\t\"testing\"\n", pkg.Name())
	for path, name := range b.imports {
		if path == "errors" || path == "math/big" || path == "reflect" || path == "testing" {
			continue
		}
		fmt.Fprintf(&src, "\t%s %q\n", name, path)
	}
	src.WriteString(")\n")
	src.WriteString(replayHelpers)
	fmt.Fprintf(&src, "\n// replay of obligation %s\nfunc TestVerifReplay(t *testing.T) {\n", v.Obl.Name)
	src.WriteString("\tdefer func() {\n\t\tif r := recover(); r != nil {\n\t\t\tt.Fatalf(\"VERIF-REPLAY PANIC: %v\", r)\n\t\t}\n\t}()\n")
	src.WriteString(body)
	src.WriteString("}\n")
	goFile := filepath.Join(outDir, "replay_"+sanitizeFile(v.Obl.Name)+"_test.go")
	if err := os.WriteFile(goFile, []byte(src.String()), 0o644); err != nil {
		return false, err.Error()
	}
	return c.execGoTest(o, goFile, pkg, append(append([]string{}, b.partial...), tr.notes...))
}

// execGoTest injects the test file into the package directory with -overlay and runs it.
func (c *FnCtx) execGoTest(o *options, goFile string, pkg *types.Package, notes []string) (bool, string) {
	// package directory
	rel := strings.TrimPrefix(pkg.Path(), "github.com/celestiaorg/celestia-node")
	rel = strings.TrimPrefix(rel, "/")
	pkgDir := filepath.Join(o.repo, rel)
	target := filepath.Join(pkgDir, "zz_verif_replay_test.go")
	ov := map[string]any{"Replace": map[string]string{target: goFile}}
	ovData, _ := json.Marshal(ov)
	ovFile := goFile + ".overlay.json"
	_ = os.WriteFile(ovFile, ovData, 0o644)
	ctx, cancel := context.WithTimeout(context.Background(), 10*time.Minute)
	defer cancel()
	cmd := exec.CommandContext(ctx, "/usr/bin/go", "test", "-overlay", ovFile, "-vet=off", "-count=1", "-timeout", "120s", "-run", "^TestVerifReplay$", "./"+rel)
	cmd.Dir = o.repo
	cmd.Env = replayEnv()
	var out bytes.Buffer
	cmd.Stdout = &out
	cmd.Stderr = &out
	err := cmd.Run()
	text := out.String()
	log := fmt.Sprintf("test file: %s\ncommand: (cd %s && go test -overlay %s -vet=off -count=1 -timeout 120s -run '^TestVerifReplay$' ./%s)\n%s", goFile, o.repo, ovFile, rel, tail(text, 30))
	if len(notes) > 0 {
		seen := map[string]bool{}
		var uniq []string
		for _, n := range notes {
			if !seen[n] {
				seen[n] = true
				uniq = append(uniq, n)
			}
		}
		log += "\nreplay notes: " + strings.Join(uniq, "; ")
	}
	if err != nil && (strings.Contains(text, "VERIF-REPLAY VIOLATED") || strings.Contains(text, "VERIF-REPLAY PANIC")) {
		return true, log
	}
	return false, log
}

// replayEnv: the plain environment (auto toolchain) without our offline overrides that break the
// toolchain switch inside /repo.
func replayEnv() []string {
	var env []string
	for _, e := range os.Environ() {
		if strings.HasPrefix(e, "GOTOOLCHAIN=") || strings.HasPrefix(e, "GOSUMDB=") || strings.HasPrefix(e, "GOFLAGS=") || strings.HasPrefix(e, "PATH=") {
			continue
		}
		env = append(env, e)
	}
	path := os.Getenv("PATH")
	// drop our toolchain dir from PATH so /usr/bin/go's own switching logic is used
	var parts []string
	for _, p := range strings.Split(path, ":") {
		if strings.Contains(p, "golang.org/toolchain@") {
			continue
		}
		parts = append(parts, p)
	}
	env = append(env, "PATH="+strings.Join(parts, ":"), "GOFLAGS=-mod=mod", "GOPROXY=off")
	return env
}

func tail(s string, n int) string {
	lines := strings.Split(strings.TrimSpace(s), "\n")
	if len(lines) > n {
		lines = lines[len(lines)-n:]
	}
	return strings.Join(lines, "\n")
}
