package main

import (
	"fmt"
	"go/token"
	"go/types"
	"strings"

	"golang.org/x/tools/go/ssa"
)

// funcFullName gives the name used to key contracts: for in-repo functions "(*T).M" / "F" / "F$1";
// for externs the fully qualified "(*pkg/path.T).M" / "pkg/path.F".
func relFuncName(fn *ssa.Function) string {
	name := fn.Name()
	if recv := fn.Signature.Recv(); recv != nil {
		rt := recv.Type()
		star := ""
		if p, ok := rt.(*types.Pointer); ok {
			star = "*"
			rt = p.Elem()
		}
		tn := ""
		if n, ok := types.Unalias(rt).(*types.Named); ok {
			tn = n.Obj().Name()
		}
		return "(" + star + tn + ")." + name
	}
	if fn.Parent() != nil {
		// closure: Parent$N naming
		return relFuncName(fn.Parent()) + strings.TrimPrefix(name, fn.Parent().Name())
	}
	return name
}

func objFullName(f *types.Func) string {
	sig := f.Type().(*types.Signature)
	if recv := sig.Recv(); recv != nil {
		rt := recv.Type()
		star := ""
		if p, ok := rt.(*types.Pointer); ok {
			star = "*"
			rt = p.Elem()
		}
		if n, ok := types.Unalias(rt).(*types.Named); ok {
			pkg := ""
			if n.Obj().Pkg() != nil {
				pkg = n.Obj().Pkg().Path() + "."
			}
			return "(" + star + pkg + n.Obj().Name() + ")." + f.Name()
		}
		if _, ok := rt.Underlying().(*types.Interface); ok {
			return "(iface)." + f.Name()
		}
	}
	if f.Pkg() != nil {
		return f.Pkg().Path() + "." + f.Name()
	}
	return f.Name()
}

// lookupSpecForObj finds a contract for a function object: in-repo (pkg::rel) or extern.
func (g *Gen) lookupSpecForObj(f *types.Func) *FuncSpec {
	if f == nil {
		return nil
	}
	full := objFullName(f)
	if s, ok := g.contracts.Funcs["extern::"+full]; ok {
		return s
	}
	if f.Pkg() != nil {
		// relative name
		rel := f.Name()
		sig := f.Type().(*types.Signature)
		if recv := sig.Recv(); recv != nil {
			rt := recv.Type()
			star := ""
			if p, ok := rt.(*types.Pointer); ok {
				star = "*"
				rt = p.Elem()
			}
			if n, ok := types.Unalias(rt).(*types.Named); ok {
				rel = "(" + star + n.Obj().Name() + ")." + f.Name()
				// interface method contracts are declared as (T).M on the interface type
			}
		}
		if s, ok := g.contracts.Funcs[f.Pkg().Path()+"::"+rel]; ok {
			return s
		}
	}
	return nil
}

func (c *FnCtx) calleeObj(common *ssa.CallCommon) *types.Func {
	if common.IsInvoke() {
		return common.Method
	}
	switch v := common.Value.(type) {
	case *ssa.Function:
		if obj, ok := v.Object().(*types.Func); ok {
			return obj
		}
		// instantiated generic / wrapper
		if v.Origin() != nil {
			if obj, ok := v.Origin().Object().(*types.Func); ok {
				return obj
			}
		}
	}
	return nil
}

func (c *FnCtx) calleeSpec(common *ssa.CallCommon) *FuncSpec {
	s := c.calleeSpec0(common)
	if s != nil && len(s.Props) == 1 && s.Props[0] == "SWEEP" {
		// safety-only contracts synthesized by -sweep say nothing to callers
		return nil
	}
	return s
}

func (c *FnCtx) calleeSpec0(common *ssa.CallCommon) *FuncSpec {
	if obj := c.calleeObj(common); obj != nil {
		if c.fn != nil && c.fn.Pkg != nil {
			if s, ok := c.g.contracts.Funcs["externlocal::"+c.fn.Pkg.Pkg.Path()+"::"+objFullName(obj)]; ok {
				return s
			}
		}
		if s := c.g.lookupSpecForObj(obj); s != nil {
			return s
		}
	}
	// closures of in-repo functions: by relative name
	cv := common.Value
	if mc := closureOfLocal(cv); mc != nil {
		cv = mc
	}
	switch v := cv.(type) {
	case *ssa.MakeClosure:
		fn := v.Fn.(*ssa.Function)
		if fn.Pkg != nil {
			if s, ok := c.g.contracts.Funcs[fn.Pkg.Pkg.Path()+"::"+relFuncName(fn)]; ok {
				return s
			}
		}
	case *ssa.Function:
		if v.Pkg != nil {
			if s, ok := c.g.contracts.Funcs[v.Pkg.Pkg.Path()+"::"+relFuncName(v)]; ok {
				return s
			}
		}
	}
	return nil
}

// calleeParamNames returns spec-visible parameter names (receiver first).
func calleeParamNames(spec *FuncSpec, sig *types.Signature, invoke bool) []string {
	if len(spec.Params) > 0 {
		return spec.Params
	}
	var names []string
	if recv := sig.Recv(); recv != nil {
		n := recv.Name()
		if n == "" || n == "_" {
			n = "recv"
		}
		names = append(names, n)
	}
	for i := 0; i < sig.Params().Len(); i++ {
		n := sig.Params().At(i).Name()
		if n == "" || n == "_" {
			n = fmt.Sprintf("arg%d", i)
		}
		names = append(names, n)
	}
	return names
}

// specModHeaps: heap keys a callee may modify according to its modifies clauses (by static type).
func (c *FnCtx) specModHeaps(spec *FuncSpec, common *ssa.CallCommon) map[string]bool {
	out := map[string]bool{}
	if len(spec.Modifies) == 0 {
		return out
	}
	obj := c.calleeObj(common)
	var sig *types.Signature
	if obj != nil {
		sig = obj.Type().(*types.Signature)
	} else {
		sig = common.Signature()
	}
	names := calleeParamNames(spec, sig, common.IsInvoke())
	ptypes := calleeParamTypes(sig)
	for _, m := range spec.Modifies {
		// modifies expressions are parameter names or param.field chains; we use the static type
		t := c.staticTypeOfModifies(m.E, names, ptypes)
		if t == nil {
			continue
		}
		switch tt := types.Unalias(t).Underlying().(type) {
		case *types.Pointer:
			k, _ := c.g.heapKeyFor(tt.Elem())
			out[k] = true
		case *types.Slice:
			k, _ := c.g.elemHeapKey(tt.Elem())
			out[k] = true
		case *types.Map:
			h, _, v, _ := c.g.mapHeapKeys(tt)
			out[h] = true
			out[v] = true
			out["MLen"] = true
		}
	}
	return out
}

func calleeParamTypes(sig *types.Signature) []types.Type {
	var ts []types.Type
	if recv := sig.Recv(); recv != nil {
		ts = append(ts, recv.Type())
	}
	for i := 0; i < sig.Params().Len(); i++ {
		ts = append(ts, sig.Params().At(i).Type())
	}
	return ts
}

func (c *FnCtx) staticTypeOfModifies(e Expr, names []string, ptypes []types.Type) types.Type {
	switch x := e.(type) {
	case *EIdent:
		for i, n := range names {
			if n == x.Name && i < len(ptypes) {
				return ptypes[i]
			}
		}
	case *ESel:
		bt := c.staticTypeOfModifies(x.X, names, ptypes)
		if bt == nil {
			return nil
		}
		obj, _, _ := types.LookupFieldOrMethod(bt, true, c.fn.Pkg.Pkg, x.Name)
		if v, ok := obj.(*types.Var); ok {
			return v.Type()
		}
	case *EIndex:
		bt := c.staticTypeOfModifies(x.X, names, ptypes)
		if bt == nil {
			return nil
		}
		switch tt := types.Unalias(bt).Underlying().(type) {
		case *types.Slice:
			return tt.Elem()
		case *types.Map:
			return tt.Elem()
		}
	}
	return nil
}

// execCall handles a call (or a deferred call at rundefers when deferred=true; x is nil then).
func (c *FnCtx) execCall(x *ssa.Call, common *ssa.CallCommon, st *State, reach *Term, deferred bool) {
	setResult := func(v Val) {
		if x != nil {
			c.regs[x] = v
		}
	}
	if b, ok := common.Value.(*ssa.Builtin); ok {
		c.execBuiltin(x, b, common, st, reach, setResult)
		return
	}
	sig := common.Signature()
	var args []TV
	obj := c.calleeObj(common)
	var fullSig *types.Signature
	if obj != nil {
		fullSig = obj.Type().(*types.Signature)
	} else {
		fullSig = sig
	}
	var temps []tempObj
	if common.IsInvoke() {
		args = append(args, TV{c.term(common.Value), common.Value.Type()})
	}
	for _, a := range common.Args {
		args = append(args, TV{c.argTerm(a, st, &temps), a.Type()})
	}
	spec := c.calleeSpec(common)
	// external-effect frame of the function under verification
	if len(c.spec.OnlyCalls) > 0 {
		full, short := "", ""
		if obj != nil {
			full, short = objFullName(obj), obj.Name()
		} else if f, ok := common.Value.(*ssa.Function); ok {
			full, short = f.String(), f.Name()
		}
		for _, oc := range c.spec.OnlyCalls {
			if full != "" && strings.Contains(full, oc.Frag) {
				if c.onlyHit == nil {
					c.onlyHit = map[string]bool{}
				}
				c.onlyHit[oc.Frag] = true
				if !oc.Allowed[short] {
					c.oblige("only", fmt.Sprintf("%s@%s", short, c.posString(token.NoPos)), *reach, tFalse, "call to "+full+" is outside the allowed effects: only "+oc.Text)
				}
			}
		}
	}
	// call-site obligations of the function under verification
	if len(c.spec.CallPres) > 0 {
		calleeName := ""
		if obj != nil {
			calleeName = objFullName(obj)
		} else if f, ok := common.Value.(*ssa.Function); ok {
			calleeName = f.String()
		}
		for i, cp := range c.spec.CallPres {
			if calleeName != "" && strings.Contains(calleeName, cp.Name) {
				if c.callPreHit == nil {
					c.callPreHit = map[int]bool{}
				}
				c.callPreHit[i] = true
				cpEnv := c.envFor(st, c.entry)
				if cpEnv.vars == nil {
					cpEnv.vars = map[string]TV{}
				}
				for k, a := range args {
					// $arg0 is the receiver of a method call, then the arguments in order
					cpEnv.vars[fmt.Sprintf("$arg%d", k)] = a
				}
				tv, err := c.evalSpec(cp.E, cpEnv)
				if err != nil {
					c.abort("callpre %d: %v", i+1, err)
					return
				}
				c.oblige("callpre", fmt.Sprintf("%d@%s", i+1, c.posString(token.NoPos)), *reach, tv.t, "at call to "+calleeName+": "+cp.Text)
			}
		}
	}
	// closures handed to a callee: the ghost-free preconditions of a contracted closure are obligations
	// here, in the caller's state, where the closure's captured variables are the caller's locals of the
	// same names (the callee will call the closure later; captured locals change only through closures)
	for _, a := range common.Args {
		for {
			if ct, ok := a.(*ssa.ChangeType); ok {
				a = ct.X
				continue
			}
			break
		}
		mc := closureOfLocal(a)
		if mc == nil {
			if m, ok := a.(*ssa.MakeClosure); ok {
				mc = m
			}
		}
		if mc == nil {
			continue
		}
		cfn := mc.Fn.(*ssa.Function)
		if cfn.Pkg == nil {
			continue
		}
		cs, ok := c.g.contracts.Funcs[cfn.Pkg.Pkg.Path()+"::"+relFuncName(cfn)]
		if !ok || cs.Trusted {
			continue
		}
		for i, rq := range cs.Requires {
			if len(ghostNamesOfExpr(rq.E)) > 0 {
				continue // ghost protocol state: the callee's param spec speaks about it
			}
			tv, err := c.evalSpec(rq.E, c.envFor(st, c.entry))
			if err != nil {
				c.abort("precondition %d of closure %s cannot be evaluated where the closure is handed over: %v", i+1, cs.Name, err)
				return
			}
			c.oblige("closurepre", fmt.Sprintf("%s.%d@%s", cs.Name, i+1, c.posString(token.NoPos)), *reach, tv.t, "closure "+cs.Name+" handed over: "+rq.Text)
		}
	}
	// built-in models of well-known library functions
	if spec == nil && obj != nil {
		if c.libraryModel(x, obj, common, args, st, reach, setResult) {
			return
		}
	}
	// calls through function-typed parameters with a param spec
	if spec == nil {
		if ps := c.paramSpecFor(common.Value); ps != nil {
			c.applyParamSpec(x, ps, common, args, st, reach, setResult)
			return
		}
	}
	if spec == nil {
		// unknown callee: results arbitrary, verified state untouched (listed assumption)
		name := "dynamic call"
		if obj != nil {
			name = objFullName(obj)
		} else if f, ok := common.Value.(*ssa.Function); ok {
			name = f.String()
		} else if mc, ok := common.Value.(*ssa.MakeClosure); ok {
			name = mc.Fn.String()
		}
		c.g.unmodelled[name] = true
		c.havocClosureWrites(common, st)
		c.havocPointerArgs(name, common, st)
		c.bumpNext(st)
		c.setCallResults(x, sig, st, setResult)
		c.copyOut(st, temps)
		return
	}
	if spec.NoFrame {
		// a frame-less callee may change every heap; that is only expressible when the caller has no
		// frame obligations itself, and only with a summary of the ghost state it changes
		if !c.spec.NoFrame || len(spec.Effects)+len(spec.Havocs) == 0 {
			c.abort("call to %s, whose contract has no frame", spec.Name)
			return
		}
		c.pendingHavocAll = true // applied by applyContract once the preconditions have been checked
	}
	// closures handed to a callee under contract may be run by it: what they write becomes arbitrary
	c.havocClosureWrites(common, st)
	names := calleeParamNames(spec, fullSig, common.IsInvoke())
	// a generic callee: parameter names come from the declaration, result and parameter types from the
	// instantiation at this call site
	useSig := fullSig
	if ((fullSig.TypeParams() != nil && fullSig.TypeParams().Len() > 0) || (fullSig.RecvTypeParams() != nil && fullSig.RecvTypeParams().Len() > 0)) && sig.Params().Len() == fullSig.Params().Len() {
		useSig = sig
	}
	results := c.applyContract(spec, useSig, names, args, st, reach, deferred)
	c.copyOut(st, temps)
	if x == nil {
		return
	}
	switch len(results) {
	case 0:
	case 1:
		setResult(Val{kind: vTerm, t: results[0].t})
	default:
		var tup []Val
		for _, r := range results {
			tup = append(tup, Val{kind: vTerm, t: r.t})
		}
		setResult(Val{kind: vTuple, tuple: tup})
	}
}

func (c *FnCtx) setCallResults(x *ssa.Call, sig *types.Signature, st *State, setResult func(Val)) {
	n := sig.Results().Len()
	mkres := func(i int) Term {
		t := c.freshTyped("ret", sig.Results().At(i).Type())
		c.assumeRefs(t, sig.Results().At(i).Type(), st)
		return t
	}
	switch n {
	case 0:
	case 1:
		setResult(Val{kind: vTerm, t: mkres(0)})
	default:
		var tup []Val
		for i := 0; i < n; i++ {
			tup = append(tup, Val{kind: vTerm, t: mkres(i)})
		}
		setResult(Val{kind: vTuple, tuple: tup})
	}
}

// Interior pointers (&x.f, &local) passed to a call: copy-in / copy-out through a temporary object.
type tempObj struct {
	addr *Addr
	ref  Term
}

func (c *FnCtx) argTerm(v ssa.Value, st *State, temps *[]tempObj) Term {
	r := c.val(v)
	if r.kind == vAddr && !(r.addr.kind == aHeap && len(r.addr.path) == 0) {
		if _, isPtr := v.Type().Underlying().(*types.Pointer); isPtr {
			ref := c.allocRef(st)
			a := &Addr{kind: aHeap, ref: ref, rootType: r.addr.typ, typ: r.addr.typ}
			c.storeTo(st, a, c.load(st, r.addr))
			*temps = append(*temps, tempObj{r.addr, ref})
			return ref
		}
	}
	return c.term(v)
}

func (c *FnCtx) copyOut(st *State, temps []tempObj) {
	for _, t := range temps {
		a := &Addr{kind: aHeap, ref: t.ref, rootType: t.addr.typ, typ: t.addr.typ}
		c.storeTo(st, t.addr, c.load(st, a))
	}
}

// applyContract: assert pre, havoc modifies, assume post; returns result terms.
func (c *FnCtx) applyContract(spec *FuncSpec, sig *types.Signature, names []string, args []TV, st *State, reach *Term, deferred bool) []TV {
	pre := st.clone()
	nDefs0, nAssumes0, reach0 := len(c.defs), len(c.assumes), *reach
	env := c.envFor(st, pre)
	env.vars = map[string]TV{}
	env.calleePkg = spec.Pkg
	for i, n := range names {
		if i < len(args) {
			env.vars[n] = args[i]
		}
	}
	calleeName := spec.Name
	if k := strings.LastIndex(calleeName, "/"); k >= 0 {
		calleeName = calleeName[k+1:]
	}
	if spec.Extern {
		// an assumed contract (dependency, interface method, or the call-site view of a repository function)
		var cls []string
		for _, cl := range spec.Ensures {
			cls = append(cls, "ensures "+cl.Text)
		}
		for _, ef := range spec.Effects {
			cls = append(cls, "effect $"+strings.TrimPrefix(ef.Name, "$")+" := "+ef.Text)
		}
		c.g.note("assumed contract (extern, not verified) on %s: %s", spec.Name, strings.Join(cls, "; "))
	}
	for i, cl := range spec.Requires {
		tv, err := c.evalSpec(cl.E, env)
		if err != nil {
			c.abort("callee %s requires %d: %v", spec.Name, i+1, err)
			return nil
		}
		c.oblige("pre", fmt.Sprintf("%s.%d", calleeName, i+1), *reach, tv.t, "precondition of "+spec.Name+": "+cl.Text)
		c.assume(*reach, tv.t)
	}
	if c.pendingHavocAll {
		c.pendingHavocAll = false
		c.havocEverything(st)
	}
	// modifies: all targets are evaluated in the pre-state, then havocked
	var targets []TV
	preEnv := *env
	preEnv.st = pre
	for _, m := range spec.Modifies {
		tv, err := c.evalSpec(m.E, &preEnv)
		if err != nil {
			c.abort("callee %s modifies: %v", spec.Name, err)
			return nil
		}
		targets = append(targets, tv)
	}
	for _, tv := range targets {
		c.havocTarget(st, tv)
	}
	// results
	nextBefore, _ := c.bumpNext(st)
	var results []TV
	for i := 0; i < sig.Results().Len(); i++ {
		rt := sig.Results().At(i).Type()
		r := c.freshTyped("r_"+mangle(calleeName), rt)
		c.assumeRefs(r, rt, st)
		results = append(results, TV{r, rt})
	}
	if spec.Pure && len(results) >= 1 {
		ts := make([]Term, len(args))
		for i, a := range args {
			ts[i] = a.t
		}
		for i := range results {
			c.define(eq(results[i].t, c.g.pureApp(spec, sig, i, ts)))
		}
	}
	if spec.Fresh && len(results) >= 1 {
		r := results[0]
		switch types.Unalias(r.typ).Underlying().(type) {
		case *types.Pointer, *types.Map:
			c.assume(*reach, ge(r.t, nextBefore))
		case *types.Slice:
			c.assume(*reach, or(eq(sBase(r.t), tZero), ge(sBase(r.t), nextBefore)))
		}
	}
	post := c.envFor(st, pre)
	post.vars = map[string]TV{}
	post.calleePkg = spec.Pkg
	for k, v := range env.vars {
		post.vars[k] = v
	}
	c.bindResults(post, sig, spec, results)
	// ghost effects: the protocol state after the call. All effects read the ghost state before the
	// call; the ensures clauses below see the state after them.
	var ghostKeys []string
	var ghostVals []Term
	for _, ef := range spec.Effects {
		tv, err := c.evalSpec(ef.E, post)
		if err != nil {
			c.abort("callee %s effect %s: %v", spec.Name, ef.Name, err)
			return nil
		}
		k := "GH_" + ef.Name[1:]
		c.g.heapSorts[k] = SBool
		c.heap(c.entry, k, SBool)
		nv := c.fresh("gh_"+ef.Name[1:], SBool)
		c.define(eq(nv, tv.t))
		ghostKeys = append(ghostKeys, k)
		ghostVals = append(ghostVals, nv)
	}
	for i, k := range ghostKeys {
		st.heaps[k] = ghostVals[i]
	}
	for _, h := range spec.Havocs {
		k := "GH_" + h[1:]
		c.g.heapSorts[k] = SBool
		c.heap(c.entry, k, SBool)
		st.heaps[k] = c.fresh("gh_"+h[1:], SBool)
	}
	for i, cl := range spec.Ensures {
		tv, err := c.evalSpec(cl.E, post)
		if err != nil {
			c.abort("callee %s ensures %d: %v", spec.Name, i+1, err)
			return nil
		}
		c.assume(*reach, tv.t)
	}
	// vacuity guard: the assumed postcondition must not make a live path dead
	if len(spec.Ensures) > 0 {
		c.coverAfterCall(calleeName, *reach, nDefs0, nAssumes0, reach0)
	}
	return results
}

// havocTarget: a pointer -> pointee arbitrary; a slice -> all elements arbitrary; a map -> contents arbitrary.
func (c *FnCtx) havocTarget(st *State, tv TV) {
	if tv.typ == nil {
		return
	}
	c.assumeRefs(tv.t, tv.typ, st)
	switch tt := types.Unalias(tv.typ).Underlying().(type) {
	case *types.Pointer:
		k, s := c.g.heapKeyFor(tt.Elem())
		h := c.heap(st, k, s)
		if _, isArr := tt.Elem().Underlying().(*types.Array); isArr {
			nv := c.fresh("hv_arr", arrayElemSort(s))
			c.elemArrayWellTyped(k, nv)
			st.heaps[k] = store(h, tv.t, nv)
			return
		}
		nv := c.freshTyped("hv_"+k, tt.Elem())
		st.heaps[k] = store(h, tv.t, nv)
	case *types.Slice:
		k, s := c.g.elemHeapKey(tt.Elem())
		h := c.heap(st, k, s)
		nv := c.fresh("hv_elems", arrayElemSort(s))
		c.elemArrayWellTyped(k, nv)
		st.heaps[k] = store(h, sBase(tv.t), nv)
	case *types.Map:
		hk, hs, vk, vs := c.g.mapHeapKeys(tt)
		h := c.heap(st, hk, hs)
		st.heaps[hk] = store(h, tv.t, c.fresh("hv_mhas", arrayElemSort(hs)))
		v := c.heap(st, vk, vs)
		st.heaps[vk] = store(v, tv.t, c.fresh("hv_mval", arrayElemSort(vs)))
		ml := c.heap(st, "MLen", arraySort(SInt, SInt))
		nl := c.fresh("hv_mlen", SInt)
		c.define(ge(nl, tZero))
		st.heaps["MLen"] = store(ml, tv.t, nl)
	}
}

// pureApp builds the uninterpreted application for a pure Go function.
func (g *Gen) pureApp(spec *FuncSpec, sig *types.Signature, resultIdx int, args []Term) Term {
	name := "fn_" + mangle(spec.Pkg+"."+spec.Name)
	if spec.Extern {
		name = "fn_" + mangle(spec.Name)
	}
	if resultIdx > 0 {
		name = fmt.Sprintf("%s_r%d", name, resultIdx)
	}
	var sorts []Sort
	for _, a := range args {
		sorts = append(sorts, a.Sort)
	}
	ret := g.u.sortOf(sig.Results().At(resultIdx).Type())
	g.u.declareFun(name, sorts, ret)
	if len(args) == 0 {
		return Term{name, ret}
	}
	return mk(ret, name, args...)
}

// checkFrame: for every heap that changed and is not covered by a modifies clause, pre-existing
// objects (non-negative references) are unchanged.
func (c *FnCtx) checkFrame(st *State, reach Term, env *Env) {
	if c.spec.Trusted || c.spec.NoFrame {
		return
	}
	// collect modifies targets
	type target struct {
		key string
		ref Term
	}
	var targets []target
	allowAll := map[string]bool{}
	for _, m := range c.spec.Modifies {
		tv, err := c.evalSpec(m.E, c.envFor(c.entry, c.entry))
		if err != nil || tv.typ == nil {
			continue
		}
		switch tt := types.Unalias(tv.typ).Underlying().(type) {
		case *types.Pointer:
			k, _ := c.g.heapKeyFor(tt.Elem())
			targets = append(targets, target{k, tv.t})
		case *types.Slice:
			k, _ := c.g.elemHeapKey(tt.Elem())
			targets = append(targets, target{k, sBase(tv.t)})
		case *types.Map:
			hk, _, vk, _ := c.g.mapHeapKeys(tt)
			targets = append(targets, target{hk, tv.t}, target{vk, tv.t}, target{"MLen", tv.t})
		}
	}
	_ = allowAll
	for _, k := range sortedKeys(st.heaps) {
		cur := st.heaps[k]
		old, ok := c.entry.heaps[k]
		if !ok || cur.S == old.S {
			continue
		}
		// Objects of dependency types (datastores, timers, libp2p hosts, ...) are outside the verified
		// state: no frame obligation for their heaps (listed once in the evidence).
		if ct, ok := c.g.heapCell[k]; ok && c.g.externalType(ct) {
			c.g.note("heaps of dependency types carry no frame obligations (their objects are outside the verified state)")
			continue
		}
		if strings.HasPrefix(k, "G_") {
			// package-level variable changed: must be listed (not supported in modifies yet)
			c.oblige("frame", k, reach, eq(cur, old), "package variable unchanged: "+k)
			continue
		}
		var excl []Term
		p := Term{"p!", SInt}
		for _, t := range targets {
			if t.key == k {
				excl = append(excl, not(eq(p, t.ref)))
			}
		}
		if k == nextKey || k == ctxDoneKey || k == chLenKey || strings.HasPrefix(k, "GH_") || strings.HasPrefix(k, "SEEN_") {
			continue
		}
		body := implies(and(append([]Term{gt(p, tZero), lt(p, c.next(c.entry))}, excl...)...), eq(sel(cur, p), sel(old, p)))
		goal := Term{fmt.Sprintf("(forall ((p! Int)) %s)", body.S), SBool}
		c.oblige("frame", k, reach, goal, "objects outside modifies unchanged in "+k)
	}
}

// paramSpecFor: if v is (a load of) a function-typed parameter with a param spec, return it.
func (c *FnCtx) paramSpecFor(v ssa.Value) *ParamSpec {
	if len(c.spec.ParamSpecs) == 0 {
		return nil
	}
	// in naive form a parameter is stored to a local and loaded back
	if u, ok := v.(*ssa.UnOp); ok {
		if a, ok := u.X.(*ssa.Alloc); ok {
			if ps, ok := c.spec.ParamSpecs[a.Comment]; ok {
				return ps
			}
		}
	}
	if p, ok := v.(*ssa.Parameter); ok {
		if ps, ok := c.spec.ParamSpecs[p.Name()]; ok {
			return ps
		}
	}
	// a closure calling a function-typed variable of the enclosing function (captured by reference in
	// naive form, by value otherwise)
	if u, ok := v.(*ssa.UnOp); ok {
		if fv, ok := u.X.(*ssa.FreeVar); ok {
			if ps, ok := c.spec.ParamSpecs[fv.Name()]; ok {
				return ps
			}
		}
	}
	if fv, ok := v.(*ssa.FreeVar); ok {
		if ps, ok := c.spec.ParamSpecs[fv.Name()]; ok {
			return ps
		}
	}
	// a function stored in a struct field: "param .fieldName: ..."
	if u, ok := v.(*ssa.UnOp); ok {
		if fa, ok := u.X.(*ssa.FieldAddr); ok {
			if pt, ok := fa.X.Type().Underlying().(*types.Pointer); ok {
				if stt, ok := pt.Elem().Underlying().(*types.Struct); ok {
					if ps, ok := c.spec.ParamSpecs["."+stt.Field(fa.Field).Name()]; ok {
						return ps
					}
				}
			}
		}
	}
	return nil
}

func (c *FnCtx) applyParamSpec(x *ssa.Call, ps *ParamSpec, common *ssa.CallCommon, args []TV, st *State, reach *Term, setResult func(Val)) {
	sig := common.Signature()
	pre := st.clone()
	env := c.envFor(st, pre)
	for i := 0; i < sig.Params().Len() && i < len(args); i++ {
		n := sig.Params().At(i).Name()
		if n == "" {
			n = fmt.Sprintf("arg%d", i)
		}
		env.vars["$"+n] = args[i]
		env.vars[fmt.Sprintf("$arg%d", i)] = args[i]
	}
	for i, cl := range ps.Requires {
		tv, err := c.evalSpec(cl.E, env)
		if err != nil {
			c.abort("param %s requires %d: %v", ps.Name, i+1, err)
			return
		}
		c.oblige("pre", fmt.Sprintf("param-%s.%d", ps.Name, i+1), *reach, tv.t, "precondition of parameter "+ps.Name+": "+cl.Text)
		c.assume(*reach, tv.t)
	}
	// ghost predicates mentioned by the param spec are havocked by the call
	c.havocGhosts(st, ps)
	c.bumpNext(st)
	var results []TV
	for i := 0; i < sig.Results().Len(); i++ {
		rt := sig.Results().At(i).Type()
		results = append(results, TV{c.freshTyped("r_"+ps.Name, rt), rt})
	}
	post := c.envFor(st, pre)
	for k, v := range env.vars {
		post.vars[k] = v
	}
	for i, r := range results {
		post.vars[fmt.Sprintf("$result%d", i)] = r
		if i == 0 {
			post.vars["$result"] = r
		}
		if i == len(results)-1 && isErrorType(r.typ) {
			post.vars["$err"] = r
		}
	}
	for i, cl := range ps.Ensures {
		tv, err := c.evalSpec(cl.E, post)
		if err != nil {
			c.abort("param %s ensures %d: %v", ps.Name, i+1, err)
			return
		}
		c.assume(*reach, tv.t)
	}
	switch len(results) {
	case 0:
	case 1:
		setResult(Val{kind: vTerm, t: results[0].t})
	default:
		var tup []Val
		for _, r := range results {
			tup = append(tup, Val{kind: vTerm, t: r.t})
		}
		setResult(Val{kind: vTuple, tuple: tup})
	}
}

// havocGhosts: ghost state variables ("$Name" identifiers) used in a param spec become arbitrary.
func (c *FnCtx) havocGhosts(st *State, ps *ParamSpec) {
	for _, n := range ghostNamesOf(ps) {
		k := "GH_" + n[1:]
		c.g.heapSorts[k] = SBool
		c.heap(c.entry, k, SBool)
		st.heaps[k] = c.fresh("gh_"+n[1:], SBool)
	}
}

// ghostNamesOf: the ghost variables a parameter spec's postconditions mention (the call may change them).
func ghostNamesOfExpr(e Expr) []string {
	return ghostNamesOf(&ParamSpec{Ensures: []Clause{{E: e}}})
}

func ghostNamesOf(ps *ParamSpec) []string {
	seen := map[string]bool{}
	var walk func(e Expr)
	walk = func(e Expr) {
		switch x := e.(type) {
		case *EIdent:
			if strings.HasPrefix(x.Name, "$") && len(x.Name) > 1 && x.Name[1] >= 'A' && x.Name[1] <= 'Z' {
				seen[x.Name] = true
			}
		case *EUnary:
			walk(x.X)
		case *EBinary:
			walk(x.X)
			walk(x.Y)
		case *ECond:
			walk(x.C)
			walk(x.A)
			walk(x.B)
		case *ECall:
			for _, a := range x.Args {
				walk(a)
			}
		case *EQuant:
			walk(x.Body)
		case *EOld:
			walk(x.X)
		}
	}
	for _, cl := range ps.Ensures {
		walk(cl.E)
	}
	return sortedKeys(seen)
}

// havocEverything: after a call to a function without a frame every heap holds arbitrary (well-typed)
// contents; ghost state changes only as the callee's contract says.
func (c *FnCtx) havocEverything(st *State) {
	for k, v := range st.heaps {
		if strings.HasPrefix(k, "GH_") || k == nextKey || k == ctxDoneKey || k == chLenKey || k == chLenKey || strings.HasPrefix(k, "SEEN_") {
			continue
		}
		nv := c.fresh("hv_"+k, v.Sort)
		c.heapWellTyped(k, nv)
		st.heaps[k] = nv
	}
	c.nfresh++
	st.epoch = fmt.Sprintf("e%d", c.nfresh)
	c.bumpNext(st)
}
