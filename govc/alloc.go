package main

import (
	"fmt"
	"go/types"
	"strings"

	"golang.org/x/tools/go/ssa"
)

// Allocation model: a ghost counter NEXT (part of the state). Every reference that exists is in
// (0, NEXT); a fresh allocation returns NEXT and bumps it. Calls may allocate: NEXT only grows.

const nextKey = "NEXT"

func (c *FnCtx) next(st *State) Term {
	c.g.heapSorts[nextKey] = SInt
	if t, ok := st.heaps[nextKey]; ok {
		return t
	}
	t := c.g.u.declareConst(fmt.Sprintf("%sNEXT_0", c.prefix), SInt)
	c.define(gt(t, intLit(1)))
	if c.entry != nil {
		if _, ok := c.entry.heaps[nextKey]; !ok {
			c.entry.heaps[nextKey] = t
		}
	}
	st.heaps[nextKey] = t
	return t
}

// curState: the state whose NEXT bounds a heap version being introduced (set by the callers that
// havoc heaps; defaults to the entry state).
func (c *FnCtx) curState() *State {
	if c.havocState != nil {
		return c.havocState
	}
	return c.entry
}

// allocRef returns a fresh reference and bumps NEXT.
func (c *FnCtx) allocRef(st *State) Term {
	n := c.next(st)
	r := c.fresh("new", SInt)
	c.define(eq(r, n))
	st.heaps[nextKey] = add(n, intLit(1))
	return r
}

// bumpNext: after a call, NEXT is an arbitrary value not below the old one.
func (c *FnCtx) bumpNext(st *State) (before, after Term) {
	before = c.next(st)
	after = c.fresh("NEXT", SInt)
	c.define(ge(after, before))
	st.heaps[nextKey] = after
	return
}

// refFacts: every reference contained in value v of type t is nil or allocated (below bound).
func (g *Gen) refFacts(v Term, t types.Type, bound Term, depth int) []Term {
	t = types.Unalias(t)
	var out []Term
	switch tt := t.Underlying().(type) {
	case *types.Map:
		// maps of different Go types are different objects: references carry their map type (the map
		// length heap is shared by all map types, so this keeps them apart)
		g.u.declareFun("mtype", []Sort{SInt}, SInt)
		out = append(out, and(le(tZero, v), lt(v, bound)), or(eq(v, tZero), eq(mk(SInt, "mtype", v), g.u.typeID(tt))))
	case *types.Pointer, *types.Chan:
		out = append(out, and(le(tZero, v), lt(v, bound)))
	case *types.Slice:
		out = append(out, and(le(tZero, sBase(v)), lt(sBase(v), bound)))
	case *types.Struct:
		if depth <= 0 || v.Sort == SInt {
			return out
		}
		info := g.u.structInfoOf(v.Sort)
		if info == nil {
			return out
		}
		for i := 0; i < tt.NumFields() && i < len(info.fields); i++ {
			out = append(out, g.refFacts(g.u.field(v, i), tt.Field(i).Type(), bound, depth-1)...)
		}
	}
	return out
}

func (c *FnCtx) assumeRefs(v Term, t types.Type, st *State) {
	for _, f := range c.g.refFacts(v, t, c.next(st), 3) {
		c.define(f)
	}
}

// liteRangeFacts: type facts of a value without the 64-bit signed bounds (which are rarely needed and
// derail quantifier instantiation): unsigned values are >= 0, small integers are in range, slice
// headers are well formed.
func (g *Gen) liteRangeFacts(v Term, t types.Type, depth int) []Term {
	t = types.Unalias(t)
	var out []Term
	if lo, hi, ok := intRange(t); ok {
		if isUnsigned(t) {
			out = append(out, le(tZero, v))
			if bitWidth(t) < 64 {
				out = append(out, le(v, bigLit(hi)))
			} else {
				out = append(out, le(v, bigLit(hi)))
			}
		} else if bitWidth(t) < 64 {
			out = append(out, le(bigLit(lo), v), le(v, bigLit(hi)))
		}
		return out
	}
	switch tt := t.Underlying().(type) {
	case *types.Slice:
		out = append(out, le(tZero, sLen(v)), le(sLen(v), sCap(v)), le(tZero, sOff(v)), le(sCap(v), bigLit(maxInt64)))
	case *types.Struct:
		if depth <= 0 || v.Sort == SInt {
			return out
		}
		info := g.u.structInfoOf(v.Sort)
		if info == nil {
			return out
		}
		for i := 0; i < tt.NumFields() && i < len(info.fields); i++ {
			out = append(out, g.liteRangeFacts(g.u.field(v, i), tt.Field(i).Type(), depth-1)...)
		}
	}
	return out
}

// countEq(m, v): the number of keys of map m whose value is v. It is an uninterpreted function of the
// map's contents; every single-key update states how it changes (true of finite-map cardinalities).
func (g *Gen) cntFun(mt *types.Map) (string, Sort, Sort, bool) {
	ks := g.u.sortOf(mt.Key())
	vs := g.u.sortOf(mt.Elem())
	if vs != SInt && vs != SBool {
		return "", "", "", false
	}
	name := "cnt_" + shortTypeName(types.Unalias(mt.Key())) + "_" + shortTypeName(types.Unalias(mt.Elem()))
	g.u.declareFun(name, []Sort{arraySort(ks, SBool), arraySort(ks, vs), vs}, SInt)
	return name, ks, vs, true
}

// mapCountFact relates countEq before and after the update of key k (newV nil: deletion).
func (c *FnCtx) mapCountFact(mt *types.Map, oldHas, oldVal, newHas, newVal, k Term, newV *Term) {
	name, _, vs, ok := c.g.cntFun(mt)
	if !ok {
		return
	}
	v := Term{"cv!", vs}
	oldC := mk(SInt, name, oldHas, oldVal, v)
	newC := mk(SInt, name, newHas, newVal, v)
	minus := ite(and(sel(oldHas, k), eq(sel(oldVal, k), v)), intLit(1), tZero)
	plus := tZero
	if newV != nil {
		plus = ite(eq(*newV, v), intLit(1), tZero)
	}
	c.define(Term{fmt.Sprintf("(forall ((cv! %s)) (! (and (= %s (+ (- %s %s) %s)) (>= %s 0) (>= %s 0)) :pattern (%s) :pattern (%s)))",
		vs, newC.S, oldC.S, minus.S, plus.S, oldC.S, newC.S, newC.S, oldC.S), SBool})
}

// Packages whose functions do not write through the pointers they are given (formatting, logging,
// error construction, clocks, contexts, metrics): calls into them leave the verified state untouched.
var readOnlyCalleePrefixes = []string{
	"fmt.", "(fmt.", "errors.", "strings.", "(strings.", "strconv.", "time.", "(time.", "(*time.", "math.", "context.", "(context.",
	"(*go.uber.org/zap.", "go.uber.org/zap", "(*github.com/ipfs/go-log", "github.com/ipfs/go-log", "go.opentelemetry.io", "(go.opentelemetry.io",
	"(*go.opentelemetry.io", "bytes.", "encoding/json.Marshal", "(*sync.", "(*sync/atomic.", "encoding/hex.", "(*github.com/celestiaorg/celestia-node/das.metrics)",
	"(*github.com/celestiaorg/celestia-node/pruner.metrics)", "(*github.com/celestiaorg/celestia-node/share/shwap/p2p/shrex/peers.metrics)",
	"(*github.com/celestiaorg/celestia-node/share/shwap/p2p/shrex.Metrics)",
}

// havocPointerArgs: an unmodelled callee may write through every pointer it receives (directly or
// boxed in an interface): those pointees become arbitrary. Callees from read-only packages are exempt.
func (c *FnCtx) havocPointerArgs(name string, common *ssa.CallCommon, st *State) {
	for _, p := range readOnlyCalleePrefixes {
		if strings.HasPrefix(name, p) {
			return
		}
	}
	for _, a := range common.Args {
		v := a
		if mi, ok := a.(*ssa.MakeInterface); ok {
			v = mi.X
		}
		pt, ok := v.Type().Underlying().(*types.Pointer)
		if !ok {
			continue
		}
		if _, isStruct := pt.Elem().Underlying().(*types.Struct); !isStruct {
			if _, isArr := pt.Elem().Underlying().(*types.Array); isArr {
				continue
			}
		}
		r := c.val(v)
		if r.kind != vTerm {
			// interior pointer / local: the addressed location becomes arbitrary
			if r.kind == vAddr {
				c.storeTo(st, r.addr, c.freshTyped("hv_arg", r.addr.typ))
			}
			continue
		}
		c.g.note("unmodelled callee %s may write through its pointer arguments: pointees made arbitrary", name)
		c.havocTarget(st, TV{r.t, v.Type()})
	}
}

// externalType: a named struct type declared outside the repository's module (or one of its metrics
// holders, which only feed observability).
func (g *Gen) externalType(t types.Type) bool {
	n, ok := types.Unalias(t).(*types.Named)
	if !ok {
		if p, isPtr := types.Unalias(t).(*types.Pointer); isPtr {
			return g.externalType(p.Elem())
		}
		return false
	}
	if n.Obj().Pkg() == nil {
		return false
	}
	if n.Obj().Name() == "metrics" || n.Obj().Name() == "Metrics" {
		return true
	}
	return !strings.HasPrefix(n.Obj().Pkg().Path(), "github.com/celestiaorg/celestia-node")
}

// bytesOfString: []byte(s). The copy is identified by the string (an uninterpreted base per string
// value), so that specs can name it as bytesOf(s); two conversions of the same string share the base
// (they are never both mutated in the code under contract).
func (g *Gen) bytesOfString(c *FnCtx, s Term) Term {
	g.u.declareFun("str2bytes", []Sort{SInt}, SInt)
	base := mk(SInt, "str2bytes", s)
	c.define(gt(base, tZero))
	g.note("[]byte(string) conversions are identified by the string value")
	return mkSlice(base, tZero, mk(SInt, "strlen", s), mk(SInt, "strlen", s))
}

// closureOfLocal: v is a load of a local variable that is assigned exactly once, a closure literal:
// a call through it is a call of that closure.
func closureOfLocal(v ssa.Value) *ssa.MakeClosure {
	ld, ok := v.(*ssa.UnOp)
	if !ok {
		return nil
	}
	a, ok := ld.X.(*ssa.Alloc)
	if !ok {
		return nil
	}
	var found *ssa.MakeClosure
	for _, ref := range *a.Referrers() {
		if st, ok := ref.(*ssa.Store); ok && st.Addr == a {
			mc, isClosure := st.Val.(*ssa.MakeClosure)
			if !isClosure || found != nil {
				return nil
			}
			found = mc
		}
	}
	return found
}
