package main

import (
	"fmt"
	"go/types"
)

// Allocation model: a ghost counter NEXT (part of the state). Every reference that exists is in
// (0, NEXT); a fresh allocation returns NEXT and bumps it. Calls may allocate: NEXT only grows.

const nextKey = "NEXT"

func (c *FnCtx) next(st *State) Term {
	c.g.heapSorts[nextKey] = SInt
	if t, ok := st.heaps[nextKey]; ok {
		return t
	}
	t := c.g.u.declareConst(fmt.Sprintf("%sNEXT_0", c.prefix), SInt)
	c.define(gt(t, intLit(1)))
	if c.entry != nil {
		if _, ok := c.entry.heaps[nextKey]; !ok {
			c.entry.heaps[nextKey] = t
		}
	}
	st.heaps[nextKey] = t
	return t
}

// curState: the state whose NEXT bounds a heap version being introduced (set by the callers that
// havoc heaps; defaults to the entry state).
func (c *FnCtx) curState() *State {
	if c.havocState != nil {
		return c.havocState
	}
	return c.entry
}

// allocRef returns a fresh reference and bumps NEXT.
func (c *FnCtx) allocRef(st *State) Term {
	n := c.next(st)
	r := c.fresh("new", SInt)
	c.define(eq(r, n))
	st.heaps[nextKey] = add(n, intLit(1))
	return r
}

// bumpNext: after a call, NEXT is an arbitrary value not below the old one.
func (c *FnCtx) bumpNext(st *State) (before, after Term) {
	before = c.next(st)
	after = c.fresh("NEXT", SInt)
	c.define(ge(after, before))
	st.heaps[nextKey] = after
	return
}

// refFacts: every reference contained in value v of type t is nil or allocated (below bound).
func (g *Gen) refFacts(v Term, t types.Type, bound Term, depth int) []Term {
	t = types.Unalias(t)
	var out []Term
	switch tt := t.Underlying().(type) {
	case *types.Map:
		// maps of different Go types are different objects: references carry their map type (the map
		// length heap is shared by all map types, so this keeps them apart)
		g.u.declareFun("mtype", []Sort{SInt}, SInt)
		out = append(out, and(le(tZero, v), lt(v, bound)), or(eq(v, tZero), eq(mk(SInt, "mtype", v), g.u.typeID(tt))))
	case *types.Pointer, *types.Chan:
		out = append(out, and(le(tZero, v), lt(v, bound)))
	case *types.Slice:
		out = append(out, and(le(tZero, sBase(v)), lt(sBase(v), bound)))
	case *types.Struct:
		if depth <= 0 || v.Sort == SInt {
			return out
		}
		info := g.u.structInfoOf(v.Sort)
		if info == nil {
			return out
		}
		for i := 0; i < tt.NumFields() && i < len(info.fields); i++ {
			out = append(out, g.refFacts(g.u.field(v, i), tt.Field(i).Type(), bound, depth-1)...)
		}
	}
	return out
}

func (c *FnCtx) assumeRefs(v Term, t types.Type, st *State) {
	for _, f := range c.g.refFacts(v, t, c.next(st), 3) {
		c.define(f)
	}
}

// liteRangeFacts: type facts of a value without the 64-bit signed bounds (which are rarely needed and
// derail quantifier instantiation): unsigned values are >= 0, small integers are in range, slice
// headers are well formed.
func (g *Gen) liteRangeFacts(v Term, t types.Type, depth int) []Term {
	t = types.Unalias(t)
	var out []Term
	if lo, hi, ok := intRange(t); ok {
		if isUnsigned(t) {
			out = append(out, le(tZero, v))
			if bitWidth(t) < 64 {
				out = append(out, le(v, bigLit(hi)))
			} else {
				out = append(out, le(v, bigLit(hi)))
			}
		} else if bitWidth(t) < 64 {
			out = append(out, le(bigLit(lo), v), le(v, bigLit(hi)))
		}
		return out
	}
	switch tt := t.Underlying().(type) {
	case *types.Slice:
		out = append(out, le(tZero, sLen(v)), le(sLen(v), sCap(v)), le(tZero, sOff(v)))
	case *types.Struct:
		if depth <= 0 || v.Sort == SInt {
			return out
		}
		info := g.u.structInfoOf(v.Sort)
		if info == nil {
			return out
		}
		for i := 0; i < tt.NumFields() && i < len(info.fields); i++ {
			out = append(out, g.liteRangeFacts(g.u.field(v, i), tt.Field(i).Type(), depth-1)...)
		}
	}
	return out
}

// countEq(m, v): the number of keys of map m whose value is v. It is an uninterpreted function of the
// map's contents; every single-key update states how it changes (true of finite-map cardinalities).
func (g *Gen) cntFun(mt *types.Map) (string, Sort, Sort, bool) {
	ks := g.u.sortOf(mt.Key())
	vs := g.u.sortOf(mt.Elem())
	if vs != SInt && vs != SBool {
		return "", "", "", false
	}
	name := "cnt_" + shortTypeName(types.Unalias(mt.Key())) + "_" + shortTypeName(types.Unalias(mt.Elem()))
	g.u.declareFun(name, []Sort{arraySort(ks, SBool), arraySort(ks, vs), vs}, SInt)
	return name, ks, vs, true
}

// mapCountFact relates countEq before and after the update of key k (newV nil: deletion).
func (c *FnCtx) mapCountFact(mt *types.Map, oldHas, oldVal, newHas, newVal, k Term, newV *Term) {
	name, _, vs, ok := c.g.cntFun(mt)
	if !ok {
		return
	}
	v := Term{"cv!", vs}
	oldC := mk(SInt, name, oldHas, oldVal, v)
	newC := mk(SInt, name, newHas, newVal, v)
	minus := ite(and(sel(oldHas, k), eq(sel(oldVal, k), v)), intLit(1), tZero)
	plus := tZero
	if newV != nil {
		plus = ite(eq(*newV, v), intLit(1), tZero)
	}
	c.define(Term{fmt.Sprintf("(forall ((cv! %s)) (! (and (= %s (+ (- %s %s) %s)) (>= %s 0) (>= %s 0)) :pattern (%s) :pattern (%s)))",
		vs, newC.S, oldC.S, minus.S, plus.S, oldC.S, newC.S, newC.S, oldC.S), SBool})
}
