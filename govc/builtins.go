package main

import (
	"fmt"
	"go/token"
	"go/types"
	"math/big"
	"strings"

	"golang.org/x/tools/go/ssa"
)

const chLenKey = "CHLEN"

func (c *FnCtx) execBuiltin(x *ssa.Call, b *ssa.Builtin, common *ssa.CallCommon, st *State, reach *Term, setResult func(Val)) {
	u := c.g.u
	switch b.Name() {
	case "len":
		a := common.Args[0]
		switch at := a.Type().Underlying().(type) {
		case *types.Slice:
			setResult(Val{kind: vTerm, t: sLen(c.term(a))})
		case *types.Basic:
			setResult(Val{kind: vTerm, t: mk(SInt, "strlen", c.term(a))})
			c.define(ge(mk(SInt, "strlen", c.term(a)), tZero))
		case *types.Map:
			ml := c.heap(st, "MLen", arraySort(SInt, SInt))
			m := c.term(a)
			l := ite(eq(m, tZero), tZero, sel(ml, m))
			c.define(ge(sel(ml, m), tZero))
			setResult(Val{kind: vTerm, t: l})
		case *types.Array:
			setResult(Val{kind: vTerm, t: intLit(at.Len())})
		case *types.Pointer:
			setResult(Val{kind: vTerm, t: intLit(at.Elem().Underlying().(*types.Array).Len())})
		case *types.Chan:
			// the length of a channel is whatever it is at the moment of the observation (other
			// goroutines send and receive); CHLEN remembers the value last observed per channel
			u.declareFun("chancap", []Sort{SInt}, SInt)
			ch := c.term(a)
			r := c.fresh("chanlen", SInt)
			c.define(and(ge(r, tZero), le(r, mk(SInt, "chancap", ch))))
			c.g.heapSorts[chLenKey] = arraySort(SInt, SInt)
			h := c.heap(st, chLenKey, arraySort(SInt, SInt))
			st.heaps[chLenKey] = store(h, ch, r)
			setResult(Val{kind: vTerm, t: r})
		default:
			c.abort("len of %s", a.Type())
		}
	case "cap":
		a := common.Args[0]
		switch at := a.Type().Underlying().(type) {
		case *types.Slice:
			setResult(Val{kind: vTerm, t: sCap(c.term(a))})
		case *types.Array:
			setResult(Val{kind: vTerm, t: intLit(at.Len())})
		case *types.Chan:
			u.declareFun("chancap", []Sort{SInt}, SInt)
			r := mk(SInt, "chancap", c.term(a))
			c.define(ge(r, tZero))
			setResult(Val{kind: vTerm, t: r})
		default:
			r := c.fresh("cap", SInt)
			c.define(ge(r, tZero))
			setResult(Val{kind: vTerm, t: r})
		}
	case "append":
		s := c.term(common.Args[0])
		sl := common.Args[0].Type().Underlying().(*types.Slice)
		key, hs := c.g.elemHeapKey(sl.Elem())
		h := c.heap(st, key, hs)
		var addLen Term
		var src func(i Term) Term
		constN := -1
		if isString(common.Args[1].Type()) {
			str := c.term(common.Args[1])
			addLen = mk(SInt, "strlen", str)
			u.declareFun("strbyte", []Sort{SInt, SInt}, SInt)
			src = func(i Term) Term { return mk(SInt, "strbyte", str, i) }
		} else {
			t := c.term(common.Args[1])
			addLen = sLen(t)
			src = func(i Term) Term { return sel(sel(h, sBase(t)), eidx(sOff(t), i)) }
			// varargs of a constant number of elements: slice t38[:] of new [k]T
			if sx, ok := common.Args[1].(*ssa.Slice); ok && sx.Low == nil && sx.High == nil {
				if pt, ok := sx.X.Type().Underlying().(*types.Pointer); ok {
					if arr, ok := pt.Elem().Underlying().(*types.Array); ok && arr.Len() <= 8 {
						constN = int(arr.Len())
					}
				}
			}
		}
		res := c.appendModel(st, s, key, hs, addLen, constN, src)
		setResult(Val{kind: vTerm, t: res})
	case "copy":
		dst := c.term(common.Args[0])
		sl := common.Args[0].Type().Underlying().(*types.Slice)
		key, hs := c.g.elemHeapKey(sl.Elem())
		h := c.heap(st, key, hs)
		var srcLen Term
		var src func(i Term) Term
		if isString(common.Args[1].Type()) {
			str := c.term(common.Args[1])
			srcLen = mk(SInt, "strlen", str)
			u.declareFun("strbyte", []Sort{SInt, SInt}, SInt)
			src = func(i Term) Term { return mk(SInt, "strbyte", str, i) }
		} else {
			t := c.term(common.Args[1])
			srcLen = sLen(t)
			src = func(i Term) Term { return sel(sel(h, sBase(t)), eidx(sOff(t), i)) }
		}
		n := c.fresh("copyn", SInt)
		c.define(eq(n, ite(le(sLen(dst), srcLen), sLen(dst), srcLen)))
		A := c.fresh("copyarr", arrayElemSort(hs))
		i := Term{"i!", SInt}
		oldArr := sel(h, sBase(dst))
		c.define(Term{fmt.Sprintf("(forall ((i! Int)) (= (select %s i!) (ite (and (<= %s i!) (< i! (+ %s %s))) %s (select %s i!))))",
			A.S, sOff(dst).S, sOff(dst).S, n.S, src(sub(i, sOff(dst))).S, oldArr.S), SBool})
		st.heaps[key] = store(h, sBase(dst), A)
		setResult(Val{kind: vTerm, t: n})
	case "delete":
		mt := common.Args[0].Type().Underlying().(*types.Map)
		m := c.term(common.Args[0])
		k := c.term(common.Args[1])
		hk, hs, vk, vs := c.g.mapHeapKeys(mt)
		has := c.heap(st, hk, hs)
		vals := c.heap(st, vk, vs)
		ml := c.heap(st, "MLen", arraySort(SInt, SInt))
		was := sel(sel(has, m), k)
		st.heaps["MLen"] = store(ml, m, ite(was, sub(sel(ml, m), intLit(1)), sel(ml, m)))
		newHasArr := c.named("mh", store(sel(has, m), k, tFalse))
		c.mapCountFact(mt, sel(has, m), sel(vals, m), newHasArr, sel(vals, m), k, nil)
		st.heaps[hk] = store(has, m, newHasArr)
	case "clear":
		if mt, ok := common.Args[0].Type().Underlying().(*types.Map); ok {
			m := c.term(common.Args[0])
			hk, hs, _, _ := c.g.mapHeapKeys(mt)
			has := c.heap(st, hk, hs)
			st.heaps[hk] = store(has, m, Term{fmt.Sprintf("((as const %s) false)", arrayElemSort(hs)), arrayElemSort(hs)})
			ml := c.heap(st, "MLen", arraySort(SInt, SInt))
			st.heaps["MLen"] = store(ml, m, tZero)
		} else {
			c.abort("clear of slice unsupported")
		}
	case "min", "max":
		r := c.term(common.Args[0])
		for _, a := range common.Args[1:] {
			t := c.term(a)
			if b.Name() == "min" {
				r = ite(le(r, t), r, t)
			} else {
				r = ite(ge(r, t), r, t)
			}
		}
		setResult(Val{kind: vTerm, t: r})
	case "print", "println":
	case "close":
	case "recover":
		setResult(Val{kind: vTerm, t: c.fresh("recovered", SInt)})
	case "ssa:wrapnilchk":
		setResult(c.val(common.Args[0]))
	case "ssa:deferstack":
		setResult(Val{kind: vTerm, t: tZero})
	case "new":
		c.abort("builtin new as call")
	default:
		c.abort("unsupported builtin %s", b.Name())
	}
}

// libraryModel: built-in contracts for a few standard-library functions (definitions, not assumptions
// about behaviour we cannot see; each one used is recorded in the evidence).
func (c *FnCtx) libraryModel(x *ssa.Call, obj *types.Func, common *ssa.CallCommon, args []TV, st *State, reach *Term, setResult func(Val)) bool {
	full := objFullName(obj)
	u := c.g.u
	used := func() { c.g.note("library model: %s", full) }
	// errors.New / fmt.Errorf allocate: the result is a new reference, different from every value
	// that existed before (in particular from the package-level sentinel errors)
	nonNilErr := func() Term {
		e := c.allocRef(st)
		c.define(gt(e, tZero))
		return e
	}
	switch full {
	case "fmt.Errorf":
		used()
		e := nonNilErr()
		// %w wrapping: is(e, X) holds for every wrapped X that the arguments carry
		c.wrapFacts(e, common, st)
		setResult(Val{kind: vTerm, t: e})
		return true
	case "errors.New":
		used()
		setResult(Val{kind: vTerm, t: nonNilErr()})
		return true
	case "errors.Is":
		used()
		u.declareFun("err_is", []Sort{SInt, SInt}, SBool)
		r := mk(SBool, "err_is", args[0].t, args[1].t)
		// errors.Is(nil, x) is false for non-nil x; errors.Is(x, x) is true
		c.define(implies(and(eq(args[0].t, tZero), not(eq(args[1].t, tZero))), not(r)))
		c.define(implies(eq(args[0].t, args[1].t), r))
		setResult(Val{kind: vTerm, t: r})
		return true
	case "errors.Join":
		used()
		// variadic slice: non-nil iff some element non-nil; we only know: all-nil slice of len<=2 handled by elements
		e := c.fresh("joined", SInt)
		c.define(ge(e, tZero))
		sl := args[0].t
		key, hs := c.g.elemHeapKey(types.Universe.Lookup("error").Type())
		h := c.heap(st, key, hs)
		arr := sel(h, sBase(sl))
		c.define(Term{fmt.Sprintf("(= (= %s 0) (forall ((i! Int)) (=> (and (<= 0 i!) (< i! %s)) (= (select %s (idx %s i!)) 0))))",
			e.S, sLen(sl).S, arr.S, sOff(sl).S), SBool})
		// errors.Is on a joined error: whatever a joined (non-nil) element matches, the join matches
		u.declareFun("err_is", []Sort{SInt, SInt}, SBool)
		c.define(Term{fmt.Sprintf("(forall ((i! Int) (y! Int)) (! (=> (and (<= 0 i!) (< i! %s) (err_is (select %s (idx %s i!)) y!)) (err_is %s y!)) :pattern ((err_is (select %s (idx %s i!)) y!))))",
			sLen(sl).S, arr.S, sOff(sl).S, e.S, arr.S, sOff(sl).S), SBool})
		setResult(Val{kind: vTerm, t: e})
		return true
	case "(encoding/binary.bigEndian).Uint16", "(encoding/binary.littleEndian).Uint16",
		"(encoding/binary.bigEndian).Uint32", "(encoding/binary.littleEndian).Uint32",
		"(encoding/binary.bigEndian).Uint64", "(encoding/binary.littleEndian).Uint64":
		used()
		n := map[string]int{"Uint16": 2, "Uint32": 4, "Uint64": 8}[obj.Name()]
		bigE := strings.Contains(full, "bigEndian")
		s := args[1].t
		c.safety("bounds", reach, ge(sLen(s), intLit(int64(n))), fmt.Sprintf("binary.%s needs %d bytes", obj.Name(), n))
		key, hs := c.g.elemHeapKey(types.Typ[types.Uint8])
		h := c.heap(st, key, hs)
		arr := sel(h, sBase(s))
		r := tZero
		for i := 0; i < n; i++ {
			bi := i
			if !bigE {
				bi = n - 1 - i
			}
			byteT := sel(arr, eidx(sOff(s), intLit(int64(bi))))
			c.define(and(le(tZero, byteT), le(byteT, intLit(255))))
			r = add(mul(r, intLit(256)), byteT)
		}
		setResult(Val{kind: vTerm, t: r})
		return true
	case "(encoding/binary.bigEndian).AppendUint16", "(encoding/binary.littleEndian).AppendUint16",
		"(encoding/binary.bigEndian).AppendUint32", "(encoding/binary.littleEndian).AppendUint32",
		"(encoding/binary.bigEndian).AppendUint64", "(encoding/binary.littleEndian).AppendUint64":
		used()
		n := map[string]int{"AppendUint16": 2, "AppendUint32": 4, "AppendUint64": 8}[obj.Name()]
		bigE := strings.Contains(full, "bigEndian")
		s := args[1].t
		v := args[2].t
		key, hs := c.g.elemHeapKey(types.Typ[types.Uint8])
		le8 := c.leBytes(v, n)
		byteAt := func(i int) Term {
			if bigE {
				return le8[n-1-i]
			}
			return le8[i]
		}
		src := func(j Term) Term {
			// only called with literal indices when constN >= 0
			var idx int
			fmt.Sscanf(j.S, "%d", &idx)
			return byteAt(idx)
		}
		res := c.appendModel(st, s, key, hs, intLit(int64(n)), n, src)
		setResult(Val{kind: vTerm, t: res})
		return true
	case "(encoding/binary.bigEndian).PutUint16", "(encoding/binary.littleEndian).PutUint16",
		"(encoding/binary.bigEndian).PutUint32", "(encoding/binary.littleEndian).PutUint32",
		"(encoding/binary.bigEndian).PutUint64", "(encoding/binary.littleEndian).PutUint64":
		used()
		n := map[string]int{"PutUint16": 2, "PutUint32": 4, "PutUint64": 8}[obj.Name()]
		bigE := strings.Contains(full, "bigEndian")
		s := args[1].t
		v := args[2].t
		c.safety("bounds", reach, ge(sLen(s), intLit(int64(n))), fmt.Sprintf("binary.%s needs %d bytes", obj.Name(), n))
		key, hs := c.g.elemHeapKey(types.Typ[types.Uint8])
		h := c.heap(st, key, hs)
		arr := sel(h, sBase(s))
		le8 := c.leBytes(v, n)
		for i := 0; i < n; i++ {
			bt := le8[i]
			if bigE {
				bt = le8[n-1-i]
			}
			arr = store(arr, eidx(sOff(s), intLit(int64(i))), bt)
		}
		st.heaps[key] = store(h, sBase(s), arr)
		return true
	case "encoding/json.Unmarshal":
		// json.Unmarshal(data, &x): on success x is the decoded value, an uninterpreted function of the
		// bytes (identified by their slice header); on failure x is arbitrary. (A-CODEC)
		used()
		e := c.fresh("jsonerr", SInt)
		c.define(ge(e, tZero))
		if mi, ok := common.Args[1].(*ssa.MakeInterface); ok {
			if pt, ok := mi.X.Type().Underlying().(*types.Pointer); ok {
				dst := c.addrOf(mi.X)
				nv := c.freshTyped("jsonval", pt.Elem())
				c.assumeRefs(nv, pt.Elem(), st)
				name := "json_dec_" + shortTypeName(pt.Elem())
				u.declareFun(name, []Sort{SSlice}, nv.Sort)
				c.define(implies(eq(e, tZero), eq(nv, mk(nv.Sort, name, args[0].t))))
				c.storeTo(st, dst, nv)
			}
		}
		setResult(Val{kind: vTerm, t: e})
		return true
	case "(context.Context).Err":
		used()
		done := c.ctxAdvance(st)
		e := c.fresh("ctxerr", SInt)
		c.define(ge(e, tZero))
		c.define(eq(not(eq(e, tZero)), sel(done, args[0].t)))
		setResult(Val{kind: vTerm, t: e})
		return true
	case "bytes.Equal":
		used()
		a, b := args[0].t, args[1].t
		key, hs := c.g.elemHeapKey(types.Typ[types.Uint8])
		h := c.heap(st, key, hs)
		r := c.fresh("byteseq", SBool)
		c.define(eq(r, c.bytesEqual(h, a, b)))
		setResult(Val{kind: vTerm, t: r})
		return true
	case "(*sync.Mutex).Lock", "(*sync.Mutex).Unlock", "(*sync.RWMutex).Lock", "(*sync.RWMutex).Unlock",
		"(*sync.RWMutex).RLock", "(*sync.RWMutex).RUnlock":
		// Locks listed in a "lock" table of the contracts carry a ghost flag ($Name: held). Acquiring
		// lock i requires that neither it nor any lock later in the table is held (lock order).
		if len(common.Args) > 0 {
			if fa, ok := common.Args[0].(*ssa.FieldAddr); ok {
				if pt, ok := fa.X.Type().Underlying().(*types.Pointer); ok {
					if nt, ok := types.Unalias(pt.Elem()).(*types.Named); ok {
						stt := nt.Underlying().(*types.Struct)
						key := nt.Obj().Name() + "." + stt.Field(fa.Field).Name()
						for _, ge := range c.g.contracts.Guards {
							if ge.Mutex != key {
								continue
							}
							c.acquireGuarded(st, reach, c.term(fa.X), nt, stt, ge, strings.HasSuffix(obj.Name(), "Unlock"))
						}
						for i, le := range c.g.contracts.Locks {
							if le.Field != key {
								continue
							}
							if strings.HasSuffix(obj.Name(), "Unlock") {
								c.setGhost(st, le.Ghost, tFalse)
								return true
							}
							var free []Term
							for _, later := range c.g.contracts.Locks[i:] {
								free = append(free, not(c.ghost(st, later.Ghost)))
							}
							c.oblige("lockorder", le.Field+"@"+c.posString(token.NoPos), *reach, and(free...),
								"acquiring "+le.Field+": neither it nor a lock later in the lock order is held")
							c.setGhost(st, le.Ghost, tTrue)
							return true
						}
					}
				}
			}
		}
		c.g.note("mutex operations outside the lock table are no-ops in the sequential model")
		return true
	case "time.Now":
		used()
		u.declareFun("now_seq", []Sort{SInt}, SInt)
		setResult(Val{kind: vTerm, t: c.freshTyped("now", obj.Type().(*types.Signature).Results().At(0).Type())})
		return true
	}
	return false
}

// leBytes decomposes an unsigned n-byte value into its little-endian bytes: fresh b_k in [0,255] with
// v = sum b_k * 256^k (the decomposition is unique, so this is a definition).
func (c *FnCtx) leBytes(v Term, n int) []Term {
	var bs []Term
	sum := tZero
	w := big.NewInt(1)
	for k := 0; k < n; k++ {
		b := c.fresh("byte", SInt)
		c.define(and(le(tZero, b), le(b, intLit(255))))
		bs = append(bs, b)
		sum = add(sum, mul(b, bigLit(w)))
		w = new(big.Int).Mul(w, big.NewInt(256))
	}
	c.define(eq(v, sum))
	return bs
}

// appendModel is Go's append: in place when the capacity suffices, otherwise a fresh array.
// constN >= 0: the number of appended elements is that constant and src is applied to literals.
func (c *FnCtx) appendModel(st *State, s Term, key string, hs Sort, addLen Term, constN int, src func(i Term) Term) Term {
	h := c.heap(st, key, hs)
	elemArr := arrayElemSort(hs)
	newLen := add(sLen(s), addLen)
	inplace := c.fresh("inplace", SBool)
	c.define(eq(inplace, le(newLen, sCap(s))))
	nb := c.allocRef(st)
	cp := c.fresh("appcap", SInt)
	c.define(ge(cp, newLen))
	oldArr := sel(h, sBase(s))
	// fresh case: a new array F holding, at the same offset, the old prefix followed by the appended
	// elements (the offset inside a fresh array is unobservable, keeping it makes element positions of
	// the result syntactically those of the operand)
	F := c.fresh("apparr", elemArr)
	off := sOff(s)
	end := add(off, sLen(s))
	c.define(Term{fmt.Sprintf("(forall ((k! Int)) (! (=> (and (<= %s k!) (< k! %s)) (= (select %s k!) (select %s k!))) :pattern ((select %s k!))))",
		off.S, end.S, F.S, oldArr.S, F.S), SBool})
	// in-place case: the old array with the cells [off+len, off+len+n) overwritten
	var I Term
	if constN >= 0 {
		I = oldArr
		for j := 0; j < constN; j++ {
			v := src(intLit(int64(j)))
			pos := eidx(off, add(sLen(s), intLit(int64(j))))
			I = store(I, pos, v)
			c.define(eq(sel(F, pos), v))
		}
	} else {
		I = c.fresh("apparr_inpl", elemArr)
		c.define(Term{fmt.Sprintf("(forall ((k! Int)) (! (= (select %s k!) (ite (and (<= %s k!) (< k! (+ %s %s))) %s (select %s k!))) :pattern ((select %s k!))))",
			I.S, end.S, end.S, addLen.S, src(sub(Term{"k!", SInt}, end)).S, oldArr.S, I.S), SBool})
		c.define(Term{fmt.Sprintf("(forall ((k! Int)) (! (=> (and (<= %s k!) (< k! (+ %s %s))) (= (select %s k!) %s)) :pattern ((select %s k!))))",
			end.S, end.S, addLen.S, F.S, src(sub(Term{"k!", SInt}, end)).S, F.S), SBool})
	}
	c.elemArrayWellTyped(key, F)
	st.heaps[key] = ite(inplace, store(h, sBase(s), I), store(h, nb, F))
	return mkSlice(ite(inplace, sBase(s), nb), off, newLen, ite(inplace, sCap(s), cp))
}

// elemArrayWellTypedIfSrc: the cells of an append result hold values of the element type (they are
// copies of well-typed cells or converted operands).
func (c *FnCtx) elemArrayWellTypedIfSrc(key string, a Term) { c.elemArrayWellTyped(key, a) }

// bytesEqual: content equality of two byte slices in heap h.
func (c *FnCtx) bytesEqual(h Term, a, b Term) Term {
	return and(eq(sLen(a), sLen(b)),
		Term{fmt.Sprintf("(forall ((i! Int)) (=> (and (<= 0 i!) (< i! %s)) (= (select %s (idx %s i!)) (select %s (idx %s i!)))))",
			sLen(a).S, sel(h, sBase(a)).S, sOff(a).S, sel(h, sBase(b)).S, sOff(b).S), SBool})
}

// wrapFacts: for fmt.Errorf with %w, record err_is(result, X) for each error-typed argument X
// (sound over-approximation only in the positive direction: wrapped errors are found by errors.Is).
func (c *FnCtx) wrapFacts(e Term, common *ssa.CallCommon, st *State) {
	if len(common.Args) < 1 {
		return
	}
	k, ok := common.Args[0].(*ssa.Const)
	if !ok || k.Value == nil || !strings.Contains(k.Value.ExactString(), "%w") {
		return
	}
	c.g.u.declareFun("err_is", []Sort{SInt, SInt}, SBool)
	c.g.u.declareFun("err_wraps", []Sort{SInt, SInt}, SBool)
	// the variadic slice was built from a varargs array: find stores of error-typed interfaces
	if len(common.Args) < 2 {
		return
	}
	sl, ok := common.Args[1].(*ssa.Slice)
	if !ok {
		return
	}
	arrAlloc, ok := sl.X.(*ssa.Alloc)
	if !ok {
		return
	}
	for _, ref := range *arrAlloc.Referrers() {
		ia, ok := ref.(*ssa.IndexAddr)
		if !ok {
			continue
		}
		for _, r2 := range *ia.Referrers() {
			s, ok := r2.(*ssa.Store)
			if !ok {
				continue
			}
			var src ssa.Value
			switch v := s.Val.(type) {
			case *ssa.ChangeInterface:
				src = v.X
			case *ssa.MakeInterface:
				continue
			default:
				src = v
			}
			if src == nil || !isErrorType(src.Type()) {
				continue
			}
			w := c.term(src)
			c.define(mk(SBool, "err_wraps", e, w))
			c.define(implies(not(eq(w, tZero)), mk(SBool, "err_is", e, w)))
			// errors.Is follows the chain: whatever the wrapped error matches, the wrapper matches
			c.define(Term{fmt.Sprintf("(forall ((y! Int)) (! (=> (err_is %s y!) (err_is %s y!)) :pattern ((err_is %s y!))))", w.S, e.S, w.S), SBool})
		}
	}
}

// acquireGuarded: the mutex of owner (a *T) was acquired: the object behind the guarded pointer field is
// whatever other goroutines left there - a new value, related to the last one this goroutine saw only by
// the rely condition (over "before" and "after").
func (c *FnCtx) acquireGuarded(st *State, reach *Term, owner Term, nt *types.Named, stt *types.Struct, ge GuardEntry, release bool) {
	for i := 0; i < stt.NumFields(); i++ {
		f := stt.Field(i)
		if f.Name() != ge.Field {
			continue
		}
		pt, ok := f.Type().Underlying().(*types.Pointer)
		if !ok {
			c.abort("guards %s: field %s is not a pointer", ge.Mutex, ge.Field)
			return
		}
		ok2, os := c.g.heapKeyFor(nt)
		oh := c.heap(st, ok2, os)
		info := c.g.u.structInfoOf(c.g.u.sortOf(nt))
		p := mk(SInt, info.fields[i].acc, sel(oh, owner))
		k, hs := c.g.heapKeyFor(pt.Elem())
		h := c.heap(st, k, hs)
		gaKey := "GA_" + mangle(ge.Mutex+"."+ge.Field)
		c.g.heapSorts[gaKey] = c.g.u.sortOf(pt.Elem())
		if release {
			// guarantee: what this critical section leaves behind relates to what it found by the same
			// condition the other goroutines are relied upon to respect
			acq := c.heap(st, gaKey, c.g.u.sortOf(pt.Elem()))
			env := c.envFor(st, c.entry)
			if env.vars == nil {
				env.vars = map[string]TV{}
			}
			env.vars["before"] = TV{acq, pt.Elem()}
			env.vars["after"] = TV{sel(h, p), pt.Elem()}
			tv, err := c.evalSpec(ge.Rely, env)
			if err != nil {
				c.abort("guards %s: guarantee: %v", ge.Mutex, err)
				return
			}
			c.oblige("guarantee", ge.Mutex+"@"+c.posString(token.NoPos), *reach, tv.t, "releasing "+ge.Mutex+": "+ge.Text)
			return
		}
		before := sel(h, p)
		after := c.fresh("guarded", c.g.u.sortOf(pt.Elem()))
		st.heaps[gaKey] = after
		for _, fct := range c.g.u.rangeFacts(after, pt.Elem(), 2) {
			c.define(fct)
		}
		st.heaps[k] = store(h, p, after)
		env := c.envFor(st, c.entry)
		if env.vars == nil {
			env.vars = map[string]TV{}
		}
		env.vars["before"] = TV{before, pt.Elem()}
		env.vars["after"] = TV{after, pt.Elem()}
		tv, err := c.evalSpec(ge.Rely, env)
		if err != nil {
			c.abort("guards %s: rely: %v", ge.Mutex, err)
			return
		}
		c.assume(*reach, tv.t)
		c.g.note("guarded state (%s): other goroutines change it only according to the stated rely condition", ge.Text)
	}
}
