package main

import (
	"os"
	"fmt"
	"go/constant"
	"go/types"
	"math/big"
	"strings"

	"golang.org/x/tools/go/ssa"
)

type Env struct {
	c         *FnCtx
	st        *State
	old       *State
	vars      map[string]TV
	header    *ssa.BasicBlock // for invariants: resolve locals visible at this loop header
	calleePkg string          // package whose scope resolves identifiers (defaults to fn's package)
	inOld     bool
	head      *State // state at the head of the enclosing loop (for hints)
}

func (c *FnCtx) envFor(st, old *State) *Env {
	e := &Env{c: c, st: st, old: old, vars: map[string]TV{}}
	for k, v := range c.params {
		e.vars[k] = v
	}
	return e
}

func (e *Env) withVar(name string, tv TV) *Env {
	n := *e
	n.vars = make(map[string]TV, len(e.vars)+1)
	for k, v := range e.vars {
		n.vars[k] = v
	}
	n.vars[name] = tv
	return &n
}

func (e *Env) pkg() *types.Package {
	if e.calleePkg != "" {
		if p, ok := e.c.g.pkgs[e.calleePkg]; ok {
			return p.Pkg
		}
		if p := e.c.g.typesPkg(e.calleePkg); p != nil {
			return p
		}
		// the declaring package of a shared extern contract is not loaded: resolve in the caller's scope
		if e.c.fn != nil {
			return e.c.fn.Pkg.Pkg
		}
	}
	if e.c.fn == nil {
		return e.c.g.typesPkg(e.c.spec.Pkg)
	}
	return e.c.fn.Pkg.Pkg
}

func (g *Gen) noteDirect(pkg, imported string) {
	if g.direct == nil {
		g.direct = map[string]map[string]bool{}
	}
	if g.direct[pkg] == nil {
		g.direct[pkg] = map[string]bool{}
	}
	g.direct[pkg][imported] = true
}

func (g *Gen) typesPkg(path string) *types.Package {
	for _, p := range g.prog.AllPackages() {
		if p.Pkg.Path() == path {
			return p.Pkg
		}
	}
	return nil
}

// resolveType parses a small Go type expression in the scope of pkg.
func (g *Gen) resolveType(s string, pkg *types.Package) (types.Type, error) {
	s = strings.TrimSpace(s)
	switch {
	case strings.HasPrefix(s, "*"):
		t, err := g.resolveType(s[1:], pkg)
		if err != nil {
			return nil, err
		}
		return types.NewPointer(t), nil
	case strings.HasPrefix(s, "[]"):
		t, err := g.resolveType(s[2:], pkg)
		if err != nil {
			return nil, err
		}
		return types.NewSlice(t), nil
	case strings.HasPrefix(s, "["):
		k := strings.Index(s, "]")
		var n int64
		fmt.Sscanf(s[1:k], "%d", &n)
		t, err := g.resolveType(s[k+1:], pkg)
		if err != nil {
			return nil, err
		}
		return types.NewArray(t, n), nil
	}
	if k := strings.Index(s, "."); k >= 0 {
		pn, tn := s[:k], s[k+1:]
		if os.Getenv("GOVC_DEBUG_SORTS") != "" {
			pp := "<nil>"
			if pkg != nil {
				pp = pkg.Path()
			}
			imp := g.lookupImport(pkg, pn)
			ip := "<nil>"
			if imp != nil {
				ip = imp.Path()
			}
			fmt.Fprintf(os.Stderr, "resolve %s in %s -> import %s\n", s, pp, ip)
		}
		if imp := g.lookupImport(pkg, pn); imp != nil {
			if obj := imp.Scope().Lookup(tn); obj != nil {
				return obj.Type(), nil
			}
		}
		// a package loaded from export data has no import list: use what its source files import
		if pkg != nil {
			want := g.aliases[pkg.Path()][pn]
			for _, p := range g.prog.AllPackages() {
				if (want != "" && p.Pkg.Path() == want) || (want == "" && p.Pkg.Name() == pn && g.direct[pkg.Path()][p.Pkg.Path()]) {
					if obj := p.Pkg.Scope().Lookup(tn); obj != nil {
						return obj.Type(), nil
					}
				}
			}
		}
		// any loaded package with that name
		for _, p := range g.prog.AllPackages() {
			if p.Pkg.Name() == pn {
				if obj := p.Pkg.Scope().Lookup(tn); obj != nil {
					return obj.Type(), nil
				}
			}
		}
		return nil, fmt.Errorf("unknown type %s", s)
	}
	if obj := pkg.Scope().Lookup(s); obj != nil {
		if tn, ok := obj.(*types.TypeName); ok {
			return tn.Type(), nil
		}
	}
	if obj := types.Universe.Lookup(s); obj != nil {
		if tn, ok := obj.(*types.TypeName); ok {
			return tn.Type(), nil
		}
	}
	return nil, fmt.Errorf("unknown type %s", s)
}

// lookupImport resolves a package qualifier used in a spec: a file-level import alias of pkg, or the
// name of one of its imports.
func (g *Gen) lookupImport(pkg *types.Package, name string) *types.Package {
	if pkg == nil {
		return nil
	}
	if path, ok := g.aliases[pkg.Path()][name]; ok {
		for _, imp := range pkg.Imports() {
			if imp.Path() == path {
				return imp
			}
		}
	}
	aliased := map[string]bool{}
	for _, path := range g.aliases[pkg.Path()] {
		aliased[path] = true
	}
	for _, imp := range pkg.Imports() {
		if imp.Name() == name && !aliased[imp.Path()] && g.direct[pkg.Path()][imp.Path()] {
			return imp
		}
	}
	for _, imp := range pkg.Imports() {
		if imp.Name() == name && !aliased[imp.Path()] {
			return imp
		}
	}
	for _, imp := range pkg.Imports() {
		if imp.Name() == name {
			return imp
		}
	}
	return nil
}

func (c *FnCtx) evalSpec(e Expr, env *Env) (TV, error) {
	u := c.g.u
	switch x := e.(type) {
	case *EInt:
		v, ok := new(big.Int).SetString(x.Val, 0)
		if !ok {
			return TV{}, fmt.Errorf("bad integer %s", x.Val)
		}
		return TV{bigLit(v), nil}, nil
	case *EBool:
		if x.Val {
			return TV{tTrue, types.Typ[types.Bool]}, nil
		}
		return TV{tFalse, types.Typ[types.Bool]}, nil
	case *EStr:
		return TV{u.strConst(x.Val), types.Typ[types.String]}, nil
	case *ENil:
		return TV{tZero, types.Typ[types.UntypedNil]}, nil
	case *EIdent:
		return c.evalIdent(x.Name, env)
	case *EOld:
		n := *env
		n.st = env.old
		n.inOld = true
		return c.evalSpec(x.X, &n)
	case *EUnary:
		v, err := c.evalSpec(x.X, env)
		if err != nil {
			return TV{}, err
		}
		switch x.Op {
		case "!":
			return TV{not(v.t), types.Typ[types.Bool]}, nil
		case "-":
			return TV{sub(tZero, v.t), v.typ}, nil
		}
	case *ECond:
		cnd, err := c.evalSpec(x.C, env)
		if err != nil {
			return TV{}, err
		}
		a, err := c.evalSpec(x.A, env)
		if err != nil {
			return TV{}, err
		}
		b, err := c.evalSpec(x.B, env)
		if err != nil {
			return TV{}, err
		}
		typ := a.typ
		if typ == nil {
			typ = b.typ
		}
		a, b = c.unifyNil(a, b)
		return TV{ite(cnd.t, a.t, b.t), typ}, nil
	case *EBinary:
		return c.evalBinary(x, env)
	case *EQuant:
		n := *env
		n.vars = make(map[string]TV, len(env.vars)+len(x.Vars))
		for k, v := range env.vars {
			n.vars[k] = v
		}
		var binders []string
		var ranges []Term
		for _, qv := range x.Vars {
			t, err := c.g.resolveType(qv.Type, env.pkg())
			if err != nil {
				return TV{}, err
			}
			c.nfresh++
			name := fmt.Sprintf("q_%s_%d", mangle(qv.Name), c.nfresh)
			s := u.sortOf(t)
			binders = append(binders, fmt.Sprintf("(%s %s)", name, s))
			bv := Term{name, s}
			n.vars[qv.Name] = TV{bv, t}
			// Bound variables of type int range over the mathematical integers: index quantifiers
			// always carry their own 0 <= i < len guard, and the 64-bit range guard derails trigger
			// selection in all three solvers. Other integer types keep their range.
			if b, isBasic := types.Unalias(t).(*types.Basic); !(isBasic && (b.Kind() == types.Int || b.Kind() == types.Int64)) {
				ranges = append(ranges, u.rangeFacts(bv, t, 2)...)
			}
		}
		body, err := c.evalSpec(x.Body, &n)
		if err != nil {
			return TV{}, err
		}
		var t Term
		var names []string
		for _, qv := range x.Vars {
			names = append(names, n.vars[qv.Name].t.S)
		}
		if x.Forall {
			inner := implies(and(ranges...), body.t).S
			t = Term{fmt.Sprintf("(forall (%s) %s)", strings.Join(binders, " "), withPatterns(inner, names)), SBool}
		} else {
			inner := and(append(ranges, body.t)...).S
			t = Term{fmt.Sprintf("(exists (%s) %s)", strings.Join(binders, " "), withPatterns(inner, names)), SBool}
		}
		return TV{t, types.Typ[types.Bool]}, nil
	case *ESel:
		return c.evalSel(x, env)
	case *EIndex:
		base, err := c.evalSpec(x.X, env)
		if err != nil {
			return TV{}, err
		}
		idx, err := c.evalSpec(x.I, env)
		if err != nil {
			return TV{}, err
		}
		if base.typ == nil {
			return TV{}, fmt.Errorf("index of untyped %s", x.X.exprString())
		}
		switch bt := types.Unalias(base.typ).Underlying().(type) {
		case *types.Slice:
			key, hs := c.g.elemHeapKey(bt.Elem())
			h := c.heap(env.st, key, hs)
			v := sel(sel(h, sBase(base.t)), eidx(sOff(base.t), idx.t))
			return TV{v, bt.Elem()}, nil
		case *types.Array:
			return TV{sel(base.t, idx.t), bt.Elem()}, nil
		case *types.Map:
			_, _, vk, vs := c.g.mapHeapKeys(bt)
			h := c.heap(env.st, vk, vs)
			return TV{sel(sel(h, base.t), idx.t), bt.Elem()}, nil
		case *types.Pointer:
			if arr, ok := bt.Elem().Underlying().(*types.Array); ok {
				key, hs := c.g.elemHeapKey(arr.Elem())
				h := c.heap(env.st, key, hs)
				return TV{sel(sel(h, base.t), idx.t), arr.Elem()}, nil
			}
		}
		return TV{}, fmt.Errorf("cannot index %s", base.typ)
	case *ESlice:
		base, err := c.evalSpec(x.X, env)
		if err != nil {
			return TV{}, err
		}
		lo := tZero
		hi := sLen(base.t)
		if x.Lo != nil {
			v, err := c.evalSpec(x.Lo, env)
			if err != nil {
				return TV{}, err
			}
			lo = v.t
		}
		if x.Hi != nil {
			v, err := c.evalSpec(x.Hi, env)
			if err != nil {
				return TV{}, err
			}
			hi = v.t
		}
		return TV{mkSlice(sBase(base.t), add(sOff(base.t), lo), sub(hi, lo), sub(sCap(base.t), lo)), base.typ}, nil
	case *ECall:
		return c.evalCall(x, env)
	}
	return TV{}, fmt.Errorf("unsupported spec expression %s", e.exprString())
}

func (c *FnCtx) unifyNil(a, b TV) (TV, TV) {
	// nil against slice
	if a.t.Sort == SSlice && b.t.S == "0" && b.t.Sort == SInt {
		b.t = nilSlice
	}
	if b.t.Sort == SSlice && a.t.S == "0" && a.t.Sort == SInt {
		a.t = nilSlice
	}
	return a, b
}

func (c *FnCtx) evalBinary(x *EBinary, env *Env) (TV, error) {
	a, err := c.evalSpec(x.X, env)
	if err != nil {
		return TV{}, err
	}
	b, err := c.evalSpec(x.Y, env)
	if err != nil {
		return TV{}, err
	}
	boolT := types.Typ[types.Bool]
	typ := a.typ
	if typ == nil {
		typ = b.typ
	}
	switch x.Op {
	case "&&":
		return TV{and(a.t, b.t), boolT}, nil
	case "||":
		return TV{or(a.t, b.t), boolT}, nil
	case "==>":
		return TV{implies(a.t, b.t), boolT}, nil
	case "<==>":
		return TV{eq(a.t, b.t), boolT}, nil
	case "==", "!=":
		var r Term
		if a.t.Sort == SSlice && (b.typ == types.Typ[types.UntypedNil]) {
			r = eq(sBase(a.t), tZero)
		} else if b.t.Sort == SSlice && (a.typ == types.Typ[types.UntypedNil]) {
			r = eq(sBase(b.t), tZero)
		} else {
			if a.t.Sort != b.t.Sort {
				return TV{}, fmt.Errorf("sort mismatch in %s: %s vs %s", x.exprString(), a.t.Sort, b.t.Sort)
			}
			r = eq(a.t, b.t)
		}
		if x.Op == "!=" {
			r = not(r)
		}
		return TV{r, boolT}, nil
	case "<":
		return TV{lt(a.t, b.t), boolT}, nil
	case "<=":
		return TV{le(a.t, b.t), boolT}, nil
	case ">":
		return TV{gt(a.t, b.t), boolT}, nil
	case ">=":
		return TV{ge(a.t, b.t), boolT}, nil
	case "+":
		return TV{add(a.t, b.t), typ}, nil
	case "-":
		return TV{sub(a.t, b.t), typ}, nil
	case "*":
		return TV{mul(a.t, b.t), typ}, nil
	case "/":
		return TV{mk(SInt, "godiv", a.t, b.t), typ}, nil
	case "%":
		return TV{mk(SInt, "gomod", a.t, b.t), typ}, nil
	}
	return TV{}, fmt.Errorf("unsupported operator %s", x.Op)
}

func (c *FnCtx) evalIdent(name string, env *Env) (TV, error) {
	// In loop invariants and hints a parameter name denotes the *current* value of the parameter's
	// variable (parameters are mutable in Go); elsewhere (requires/ensures) it denotes the entry value.
	if env.header != nil && !env.inOld && c.fn != nil {
		if ptv, isParam := c.params[name]; isParam && env.vars[name].t.S == ptv.t.S {
			if a := c.resolveLocal(name, env.header); a != nil && !a.Heap {
				if t, ok := env.st.locals[a]; ok {
					return TV{t, a.Type().(*types.Pointer).Elem()}, nil
				}
			}
		}
	}
	if tv, ok := env.vars[name]; ok {
		return tv, nil
	}
	if strings.HasPrefix(name, "$") && len(name) > 1 && name[1] >= 'A' && name[1] <= 'Z' {
		k := "GH_" + name[1:]
		c.g.heapSorts[k] = SBool
		return TV{c.heap(env.st, k, SBool), types.Typ[types.Bool]}, nil
	}
	// locals (invariants, asserts): resolve by source name
	if env.header != nil || env.calleePkg == "" {
		if a := c.resolveLocal(name, env.header); a != nil {
			et := a.Type().(*types.Pointer).Elem()
			if a.Heap {
				ref := c.term(a)
				return TV{c.load(env.st, &Addr{kind: aHeap, ref: ref, rootType: et, typ: et}), et}, nil
			}
			t, ok := env.st.locals[a]
			if !ok {
				t = c.g.u.zero(et)
			}
			return TV{t, et}, nil
		}
		// captured variables in closures
		for _, fv := range c.freeVars() {
			if fv.Name() == name {
				et := fv.Type().(*types.Pointer).Elem()
				ref := c.term(fv)
				return TV{c.load(env.st, &Addr{kind: aHeap, ref: ref, rootType: et, typ: et}), et}, nil
			}
		}
	}
	if cd, ok := c.g.contracts.Consts[name]; ok {
		ce := c.envFor(env.st, env.old)
		ce.calleePkg = cd.Pkg
		ce.vars = map[string]TV{}
		return c.evalSpec(cd.E, ce)
	}
	pkg := env.pkg()
	if obj := pkg.Scope().Lookup(name); obj != nil {
		return c.evalObject(obj, env)
	}
	return TV{}, fmt.Errorf("unknown identifier %q", name)
}

func (c *FnCtx) freeVars() []*ssa.FreeVar {
	if c.fn == nil {
		return nil
	}
	return c.fn.FreeVars
}

func (c *FnCtx) evalObject(obj types.Object, env *Env) (TV, error) {
	switch o := obj.(type) {
	case *types.Const:
		switch o.Val().Kind() {
		case constant.Int:
			s := o.Val().ExactString()
			v, _ := new(big.Int).SetString(s, 10)
			return TV{bigLit(v), o.Type()}, nil
		case constant.Bool:
			if constant.BoolVal(o.Val()) {
				return TV{tTrue, o.Type()}, nil
			}
			return TV{tFalse, o.Type()}, nil
		case constant.String:
			return TV{c.g.u.strConst(constant.StringVal(o.Val())), o.Type()}, nil
		}
	case *types.Var:
		key := "G_" + mangle(o.Pkg().Path()+"."+o.Name())
		c.g.heapSorts[key] = c.g.u.sortOf(o.Type())
		gv := c.heap(env.st, key, c.g.u.sortOf(o.Type()))
		c.sentinelFactPkg(o.Pkg().Path(), o.Name(), o.Type(), gv)
		return TV{gv, o.Type()}, nil
	}
	return TV{}, fmt.Errorf("cannot use %s in a spec", obj.Name())
}

// resolveLocal finds the Alloc named name visible at header (or the latest one in the function).
// name may be "x#k" to select the k-th alloc with that name in function order.
func (c *FnCtx) resolveLocal(name string, header *ssa.BasicBlock) *ssa.Alloc {
	want := 0
	if k := strings.Index(name, "#"); k >= 0 {
		fmt.Sscanf(name[k+1:], "%d", &want)
		name = name[:k]
	}
	if name == "rangeiter" {
		// hidden counter of a range-over-int loop
		name = "rangeint.iter"
	}
	var cands []*ssa.Alloc
	if c.fn == nil {
		return nil
	}
	for _, b := range c.fn.Blocks {
		for _, in := range b.Instrs {
			if a, ok := in.(*ssa.Alloc); ok && a.Comment == name {
				cands = append(cands, a)
			}
		}
	}
	if len(cands) == 0 {
		return nil
	}
	if want > 0 {
		if want <= len(cands) {
			return cands[want-1]
		}
		return nil
	}
	if header == nil {
		return cands[0]
	}
	var best *ssa.Alloc
	for _, a := range cands {
		if a.Block() == header || a.Block().Dominates(header) {
			if best == nil || best.Block().Dominates(a.Block()) {
				best = a
			}
		}
	}
	if best == nil {
		return cands[0]
	}
	return best
}

func (c *FnCtx) evalSel(x *ESel, env *Env) (TV, error) {
	// package-qualified name?
	if id, ok := x.X.(*EIdent); ok {
		if _, bound := env.vars[id.Name]; !bound && c.resolveLocalQuiet(id.Name, env) == nil {
			pkg := env.pkg()
			if imp := c.g.lookupImport(pkg, id.Name); imp != nil {
				if obj := imp.Scope().Lookup(x.Name); obj != nil {
					return c.evalObject(obj, env)
				}
			}
			if pkg.Scope().Lookup(id.Name) == nil {
				for _, p := range c.g.prog.AllPackages() {
					if p.Pkg.Name() == id.Name {
						if obj := p.Pkg.Scope().Lookup(x.Name); obj != nil {
							return c.evalObject(obj, env)
						}
					}
				}
			}
		}
	}
	base, err := c.evalSpec(x.X, env)
	if err != nil {
		return TV{}, err
	}
	if base.typ == nil {
		return TV{}, fmt.Errorf("selector on untyped %s", x.X.exprString())
	}
	return c.selectField(base, x.Name, env)
}

func (c *FnCtx) resolveLocalQuiet(name string, env *Env) *ssa.Alloc {
	if env.header == nil && env.calleePkg != "" {
		return nil
	}
	return c.resolveLocal(name, env.header)
}

// selectField follows a (possibly promoted) field path with automatic pointer dereference.
func (c *FnCtx) selectField(base TV, name string, env *Env) (TV, error) {
	obj, index, _ := types.LookupFieldOrMethod(base.typ, true, env.pkg(), name)
	if obj == nil {
		// unexported field of another package: search manually
		obj, index = lookupFieldAnyPkg(base.typ, name)
		if obj == nil {
			return TV{}, fmt.Errorf("no field %s in %s", name, base.typ)
		}
	}
	if _, ok := obj.(*types.Var); !ok {
		return TV{}, fmt.Errorf("%s is not a field", name)
	}
	cur := base
	for _, fi := range index {
		t := types.Unalias(cur.typ)
		if p, ok := t.Underlying().(*types.Pointer); ok {
			k, s := c.g.heapKeyFor(p.Elem())
			h := c.heap(env.st, k, s)
			cur = TV{sel(h, cur.t), p.Elem()}
			t = types.Unalias(cur.typ)
		}
		st, ok := t.Underlying().(*types.Struct)
		if !ok {
			return TV{}, fmt.Errorf("field %s of non-struct %s", name, t)
		}
		cur = TV{c.g.u.field(cur.t, fi), st.Field(fi).Type()}
	}
	return cur, nil
}

func lookupFieldAnyPkg(t types.Type, name string) (types.Object, []int) {
	t = types.Unalias(t)
	if p, ok := t.Underlying().(*types.Pointer); ok {
		t = p.Elem()
	}
	st, ok := t.Underlying().(*types.Struct)
	if !ok {
		return nil, nil
	}
	for i := 0; i < st.NumFields(); i++ {
		if st.Field(i).Name() == name {
			return st.Field(i), []int{i}
		}
	}
	for i := 0; i < st.NumFields(); i++ {
		if st.Field(i).Embedded() {
			if o, idx := lookupFieldAnyPkg(st.Field(i).Type(), name); o != nil {
				return o, append([]int{i}, idx...)
			}
		}
	}
	return nil, nil
}

func (c *FnCtx) evalCall(x *ECall, env *Env) (TV, error) {
	u := c.g.u
	evalArgs := func() ([]TV, error) {
		var out []TV
		for _, a := range x.Args {
			v, err := c.evalSpec(a, env)
			if err != nil {
				return nil, err
			}
			out = append(out, v)
		}
		return out, nil
	}
	if id, ok := x.Fun.(*EIdent); ok {
		switch id.Name {
		case "len", "cap":
			args, err := evalArgs()
			if err != nil {
				return TV{}, err
			}
			if len(args) != 1 {
				return TV{}, fmt.Errorf("len takes one argument")
			}
			a := args[0]
			intT := types.Typ[types.Int]
			if a.typ == nil {
				return TV{}, fmt.Errorf("len of untyped")
			}
			switch at := types.Unalias(a.typ).Underlying().(type) {
			case *types.Slice:
				if id.Name == "cap" {
					return TV{sCap(a.t), intT}, nil
				}
				return TV{sLen(a.t), intT}, nil
			case *types.Basic:
				return TV{mk(SInt, "strlen", a.t), intT}, nil
			case *types.Map:
				ml := c.heap(env.st, "MLen", arraySort(SInt, SInt))
				return TV{ite(eq(a.t, tZero), tZero, sel(ml, a.t)), intT}, nil
			case *types.Array:
				return TV{intLit(at.Len()), intT}, nil
			case *types.Chan:
				// cap(ch): the channel's buffer size; len(ch): the length last observed by the code
				u.declareFun("chancap", []Sort{SInt}, SInt)
				if id.Name == "cap" {
					return TV{mk(SInt, "chancap", a.t), intT}, nil
				}
				c.g.heapSorts[chLenKey] = arraySort(SInt, SInt)
				return TV{sel(c.heap(env.st, chLenKey, arraySort(SInt, SInt)), a.t), intT}, nil
			}
			return TV{}, fmt.Errorf("len of %s", a.typ)
		case "iface":
			// iface(x): x converted to an interface value (what a call passing x as an interface argument sees)
			args, err := evalArgs()
			if err != nil {
				return TV{}, err
			}
			if len(args) != 1 || args[0].typ == nil {
				return TV{}, fmt.Errorf("iface takes one typed argument")
			}
			return TV{c.box(args[0].t, args[0].typ), types.NewInterfaceType(nil, nil)}, nil
		case "has":
			if oc, ok := x.Args[0].(*ECall); ok {
				if id, ok := oc.Fun.(*EIdent); ok && id.Name == "old" {
					// old(m) is the same map reference; membership would be read in the current state
					return TV{}, fmt.Errorf("has(old(m), k) reads the current contents of m: write old(has(m, k))")
				}
			}
			args, err := evalArgs()
			if err != nil {
				return TV{}, err
			}
			mt, ok := types.Unalias(args[0].typ).Underlying().(*types.Map)
			if !ok {
				return TV{}, fmt.Errorf("has() needs a map")
			}
			hk, hs, _, _ := c.g.mapHeapKeys(mt)
			h := c.heap(env.st, hk, hs)
			return TV{and(not(eq(args[0].t, tZero)), sel(sel(h, args[0].t), args[1].t)), types.Typ[types.Bool]}, nil
		case "is":
			args, err := evalArgs()
			if err != nil {
				return TV{}, err
			}
			u.declareFun("err_is", []Sort{SInt, SInt}, SBool)
			return TV{mk(SBool, "err_is", args[0].t, args[1].t), types.Typ[types.Bool]}, nil
		case "bytesEq":
			args, err := evalArgs()
			if err != nil {
				return TV{}, err
			}
			key, hs := c.g.elemHeapKey(types.Typ[types.Uint8])
			h := c.heap(env.st, key, hs)
			return TV{c.bytesEqual(h, args[0].t, args[1].t), types.Typ[types.Bool]}, nil
		case "deref":
			args, err := evalArgs()
			if err != nil {
				return TV{}, err
			}
			p, ok := types.Unalias(args[0].typ).Underlying().(*types.Pointer)
			if !ok {
				return TV{}, fmt.Errorf("deref of non-pointer")
			}
			k, s := c.g.heapKeyFor(p.Elem())
			h := c.heap(env.st, k, s)
			return TV{sel(h, args[0].t), p.Elem()}, nil
		case "zero":
			// zero(x): the zero value of x's type
			args, err := evalArgs()
			if err != nil {
				return TV{}, err
			}
			if len(args) != 1 || args[0].typ == nil {
				return TV{}, fmt.Errorf("zero takes one typed argument")
			}
			return TV{u.zero(args[0].typ), args[0].typ}, nil
		case "unboxPtr":
			// unboxPtr(x, pkg.T): the *T held by the interface value x (what x.(*T) yields when x holds one)
			if len(x.Args) != 2 {
				return TV{}, fmt.Errorf("unboxPtr(x, T)")
			}
			xv, err := c.evalSpec(x.Args[0], env)
			if err != nil {
				return TV{}, err
			}
			tt, err := c.g.resolveType("*"+x.Args[1].exprString(), env.pkg())
			if err != nil {
				return TV{}, err
			}
			un := "unbox_" + shortTypeName(tt)
			u.declareFun(un, []Sort{SInt}, SInt)
			return TV{mk(SInt, un, xv.t), tt}, nil
		case "bytesOf":
			args, err := evalArgs()
			if err != nil {
				return TV{}, err
			}
			return TV{c.g.bytesOfString(c, args[0].t), types.NewSlice(types.Typ[types.Uint8])}, nil
		case "countEq":
			// countEq(m, v): number of keys of map m whose value is v
			args, err := evalArgs()
			if err != nil {
				return TV{}, err
			}
			mt, ok := types.Unalias(args[0].typ).Underlying().(*types.Map)
			if !ok {
				return TV{}, fmt.Errorf("countEq needs a map")
			}
			name, _, _, ok := c.g.cntFun(mt)
			if !ok {
				return TV{}, fmt.Errorf("countEq: unsupported value type")
			}
			hk, hs, vk, vs := c.g.mapHeapKeys(mt)
			hasArr := sel(c.heap(env.st, hk, hs), args[0].t)
			valArr := sel(c.heap(env.st, vk, vs), args[0].t)
			return TV{mk(SInt, name, hasArr, valArr, args[1].t), types.Typ[types.Int]}, nil
		case "ctxDone":
			// ctxDone(ctx): the context has been observed done (monotone ghost set)
			args, err := evalArgs()
			if err != nil {
				return TV{}, err
			}
			return TV{sel(c.ctxDoneSet(env.st), args[0].t), types.Typ[types.Bool]}, nil
		case "seen":
			// seen(n, k): key k was already produced by the n-th map iteration of the function
			if len(x.Args) != 2 {
				return TV{}, fmt.Errorf("seen(n, key)")
			}
			lit, ok := x.Args[0].(*EInt)
			if !ok {
				return TV{}, fmt.Errorf("seen: first argument must be a literal ordinal")
			}
			kv, err := c.evalSpec(x.Args[1], env)
			if err != nil {
				return TV{}, err
			}
			key := "SEEN_" + lit.Val
			srt, known := c.g.heapSorts[key]
			if !known {
				srt = arraySort(kv.t.Sort, SBool)
				c.g.heapSorts[key] = srt
			}
			return TV{sel(c.heap(env.st, key, srt), kv.t), types.Typ[types.Bool]}, nil
		case "head":
			// head(e): e evaluated in the state at the head of the enclosing loop (hints only)
			if env.head == nil || len(x.Args) != 1 {
				return TV{}, fmt.Errorf("head() is only available in loop hints")
			}
			n := *env
			n.st = env.head
			return c.evalSpec(x.Args[0], &n)
		case "isFresh", "sameArray":
			args, err := evalArgs()
			if err != nil {
				return TV{}, err
			}
			refOf := func(a TV) Term {
				if a.t.Sort == SSlice {
					return sBase(a.t)
				}
				return a.t
			}
			if id.Name == "sameArray" {
				return TV{eq(refOf(args[0]), refOf(args[1])), types.Typ[types.Bool]}, nil
			}
			return TV{ge(refOf(args[0]), c.next(env.old)), types.Typ[types.Bool]}, nil
		case "typeof":
			args, err := evalArgs()
			if err != nil {
				return TV{}, err
			}
			return TV{mk(SInt, "typeof", args[0].t), types.Typ[types.Int]}, nil
		case "div":
			args, err := evalArgs()
			if err != nil {
				return TV{}, err
			}
			return TV{mk(SInt, "div", args[0].t, args[1].t), types.Typ[types.Int]}, nil
		case "mod":
			args, err := evalArgs()
			if err != nil {
				return TV{}, err
			}
			return TV{mk(SInt, "mod", args[0].t, args[1].t), types.Typ[types.Int]}, nil
		}
		// spec-level pure functions
		if pf, ok := c.g.contracts.Pures[id.Name]; ok {
			args, err := evalArgs()
			if err != nil {
				return TV{}, err
			}
			return c.g.applyPure(c, pf, args, env)
		}
		// conversions T(x)
		if t, err := c.g.resolveType(id.Name, env.pkg()); err == nil && len(x.Args) == 1 {
			if _, isLocal := env.vars[id.Name]; !isLocal {
				args, err := evalArgs()
				if err != nil {
					return TV{}, err
				}
				if isInteger(t) {
					return TV{wrapTo(args[0].t, t), t}, nil
				}
				return TV{args[0].t, t}, nil
			}
		}
		// Go function of the package declared pure
		if obj, ok := env.pkg().Scope().Lookup(id.Name).(*types.Func); ok {
			args, err := evalArgs()
			if err != nil {
				return TV{}, err
			}
			return c.evalGoPureCall(obj, args)
		}
		return TV{}, fmt.Errorf("unknown spec function %s", id.Name)
	}
	if sel, ok := x.Fun.(*ESel); ok {
		// pkg.Func(...) or recv.Method(...)
		if id, ok := sel.X.(*EIdent); ok {
			if _, bound := env.vars[id.Name]; !bound && c.resolveLocalQuiet(id.Name, env) == nil && env.pkg().Scope().Lookup(id.Name) == nil {
				for _, imp := range []*types.Package{c.g.lookupImport(env.pkg(), id.Name)} {
					if imp != nil {
						if obj, ok := imp.Scope().Lookup(sel.Name).(*types.Func); ok {
							args, err := evalArgs()
							if err != nil {
								return TV{}, err
							}
							return c.evalGoPureCall(obj, args)
						}
						if tn, ok := imp.Scope().Lookup(sel.Name).(*types.TypeName); ok && len(x.Args) == 1 {
							args, err := evalArgs()
							if err != nil {
								return TV{}, err
							}
							if isInteger(tn.Type()) {
								return TV{wrapTo(args[0].t, tn.Type()), tn.Type()}, nil
							}
							return TV{args[0].t, tn.Type()}, nil
						}
					}
				}
			}
		}
		recv, err := c.evalSpec(sel.X, env)
		if err != nil {
			return TV{}, err
		}
		if recv.typ == nil {
			return TV{}, fmt.Errorf("method call on untyped value")
		}
		obj, index, _ := types.LookupFieldOrMethod(recv.typ, true, env.pkg(), sel.Name)
		f, ok := obj.(*types.Func)
		if !ok {
			return TV{}, fmt.Errorf("no method %s on %s", sel.Name, recv.typ)
		}
		// promoted through embedded fields
		cur := recv
		for _, fi := range index[:len(index)-1] {
			t := types.Unalias(cur.typ)
			if p, ok := t.Underlying().(*types.Pointer); ok {
				k, s := c.g.heapKeyFor(p.Elem())
				h := c.heap(env.st, k, s)
				cur = TV{mk(arrayElemSort(s), "select", h, cur.t), p.Elem()}
				t = types.Unalias(cur.typ)
			}
			st := t.Underlying().(*types.Struct)
			cur = TV{u.field(cur.t, fi), st.Field(fi).Type()}
		}
		// adjust receiver pointer-ness
		sig := f.Type().(*types.Signature)
		if sig.Recv() != nil {
			_, wantPtr := sig.Recv().Type().(*types.Pointer)
			_, havePtr := types.Unalias(cur.typ).Underlying().(*types.Pointer)
			if !wantPtr && havePtr {
				p := types.Unalias(cur.typ).Underlying().(*types.Pointer)
				k, s := c.g.heapKeyFor(p.Elem())
				h := c.heap(env.st, k, s)
				cur = TV{mk(arrayElemSort(s), "select", h, cur.t), p.Elem()}
			} else if wantPtr && !havePtr {
				return TV{}, fmt.Errorf("method %s needs an addressable receiver", sel.Name)
			}
		}
		args, err := evalArgs()
		if err != nil {
			return TV{}, err
		}
		return c.evalGoPureCall(f, append([]TV{cur}, args...))
	}
	return TV{}, fmt.Errorf("unsupported call %s", x.exprString())
}

// evalGoPureCall: a Go function used inside a spec must carry a contract marked pure.
func (c *FnCtx) evalGoPureCall(f *types.Func, args []TV) (TV, error) {
	spec := c.g.lookupSpecForObj(f)
	if spec == nil || !spec.Pure {
		return TV{}, fmt.Errorf("function %s used in a spec is not declared pure", objFullName(f))
	}
	sig := f.Type().(*types.Signature)
	ts := make([]Term, len(args))
	for i, a := range args {
		ts[i] = a.t
	}
	if sig.Results().Len() < 1 {
		return TV{}, fmt.Errorf("pure function %s has no result", f.Name())
	}
	return TV{c.g.pureApp(spec, sig, 0, ts), sig.Results().At(0).Type()}, nil
}

// applyPure applies a spec-level pure function (uninterpreted or defined by inlining).
func (g *Gen) applyPure(c *FnCtx, pf *PureFunc, args []TV, env *Env) (TV, error) {
	if len(args) != len(pf.Params) {
		return TV{}, fmt.Errorf("%s expects %d arguments", pf.Name, len(pf.Params))
	}
	pkg := g.typesPkg(pf.Pkg)
	if pkg == nil {
		pkg = env.pkg()
	}
	ret, err := g.resolveType(pf.Ret, pkg)
	if err != nil {
		return TV{}, err
	}
	if pf.Body != nil && !pf.Rec {
		// inline
		n := &Env{c: c, st: env.st, old: env.old, vars: map[string]TV{}, calleePkg: pf.Pkg}
		for i, p := range pf.Params {
			pt, err := g.resolveType(p.Type, pkg)
			if err != nil {
				return TV{}, err
			}
			n.vars[p.Name] = TV{args[i].t, pt}
		}
		v, err := c.evalSpec(pf.Body, n)
		if err != nil {
			return TV{}, err
		}
		return TV{v.t, ret}, nil
	}
	var sorts []Sort
	var ts []Term
	for i, p := range pf.Params {
		pt, err := g.resolveType(p.Type, pkg)
		if err != nil {
			return TV{}, err
		}
		s := g.u.sortOf(pt)
		if args[i].t.Sort != s {
			if s == SSlice && args[i].t.S == "0" {
				args[i].t = nilSlice
			} else {
				return TV{}, fmt.Errorf("argument %d of %s: sort %s, want %s", i+1, pf.Name, args[i].t.Sort, s)
			}
		}
		sorts = append(sorts, s)
		ts = append(ts, args[i].t)
	}
	name := "sp_" + pf.Name
	g.u.declareFun(name, sorts, g.u.sortOf(ret))
	if len(ts) == 0 {
		return TV{Term{name, g.u.sortOf(ret)}, ret}, nil
	}
	app := mk(g.u.sortOf(ret), name, ts...)
	// the value of an uninterpreted spec function is a value of its result type (integer range only:
	// shallow, quantifier-free, and only where the application is closed - no bound variables)
	if _, _, isInt := intRange(types.Unalias(ret)); isInt && c != nil && !strings.Contains(app.S, "q_") && !strings.Contains(app.S, "!") {
		for _, f := range g.u.rangeFacts(app, ret, 0) {
			c.define(f)
		}
	}
	return TV{app, ret}, nil
}
