package main

import (
	"fmt"
	"go/types"
	"reflect"
	"sort"
)

var permLevel = map[string]int{"public": 0, "read": 1, "write": 2, "admin": 3}

// permObligations: one obligation per method of the API struct: its perm tag is one of the four
// levels (declared), and it is at least the level the policy requires.
func (g *Gen) permObligations(pt *PermTable) ([]*Obligation, error) {
	pkg := g.typesPkg(pt.Pkg)
	if pkg == nil {
		return nil, fmt.Errorf("package %s not loaded", pt.Pkg)
	}
	obj := pkg.Scope().Lookup(pt.Type)
	if obj == nil {
		return nil, fmt.Errorf("type %s not found in %s", pt.Type, pt.Pkg)
	}
	st, ok := obj.Type().Underlying().(*types.Struct)
	if !ok {
		return nil, fmt.Errorf("%s is not a struct", pt.Type)
	}
	if pt.Wire {
		return g.wireObligations(pt, pkg.Name(), st)
	}
	var internal *types.Struct
	for i := 0; i < st.NumFields(); i++ {
		if st.Field(i).Name() == "Internal" {
			internal, _ = st.Field(i).Type().Underlying().(*types.Struct)
		}
	}
	if internal == nil {
		return nil, fmt.Errorf("%s has no Internal struct", pt.Type)
	}
	pkgName := pkg.Name()
	mk := func(name, kind, goal, body string) *Obligation {
		return &Obligation{Name: fmt.Sprintf("%s.%s#%s", pkgName, pt.Type, name), Kind: kind, Fn: pt.Type, Pkg: pt.Pkg,
			Props: pt.Props, Body: body, Goal: goal}
	}
	var out []*Obligation
	seen := map[string]bool{}
	for i := 0; i < internal.NumFields(); i++ {
		f := internal.Field(i)
		if _, isFn := f.Type().Underlying().(*types.Signature); !isFn {
			continue
		}
		seen[f.Name()] = true
		tag := reflect.StructTag(internal.Tag(i)).Get("perm")
		lvl, declared := permLevel[tag]
		declBody := "(assert (not true))\n"
		if !declared {
			declBody = "(assert (not false))\n"
			lvl = -1
		}
		out = append(out, mk("perm-declared:"+f.Name(), "perm", fmt.Sprintf("method %s declares a permission level (tag %q)", f.Name(), tag), declBody))
		req, listed := pt.Requires[f.Name()]
		if !listed {
			if pt.Closed {
				out = append(out, mk("perm-policy:"+f.Name(), "perm", "method "+f.Name()+" has an entry in the permission policy (closed table)", "(assert (not false))\n"))
			}
			continue
		}
		need, okLevel := permLevel[req]
		if !okLevel {
			return nil, fmt.Errorf("unknown level %q for %s", req, f.Name())
		}
		out = append(out, mk("perm:"+f.Name(), "perm", fmt.Sprintf("method %s (declared %q) requires at least %q", f.Name(), tag, req),
			fmt.Sprintf("(assert (not (>= %d %d)))\n", lvl, need)))
	}
	var missing []string
	for m := range pt.Requires {
		if !seen[m] {
			missing = append(missing, m)
		}
	}
	sort.Strings(missing)
	for _, m := range missing {
		out = append(out, mk("perm-target:"+m, "unsupported", "policy entry "+m+" names an existing method", "(assert true)\n"))
	}
	return out, nil
}

// wireObligations: a contract on a struct declaration whose JSON form is a wire format that other
// binaries, earlier releases and persisted data share (token claims): every listed field is encoded
// under exactly the stated key (its json tag name, or its Go name when untagged); closed: every exported
// field is listed.
func (g *Gen) wireObligations(pt *PermTable, pkgName string, st *types.Struct) ([]*Obligation, error) {
	mk := func(name, kind, goal, body string) *Obligation {
		return &Obligation{Name: fmt.Sprintf("%s.%s#%s", pkgName, pt.Type, name), Kind: kind, Fn: pt.Type, Pkg: pt.Pkg,
			Props: pt.Props, Body: body, Goal: goal}
	}
	var out []*Obligation
	seen := map[string]bool{}
	for i := 0; i < st.NumFields(); i++ {
		f := st.Field(i)
		if !f.Exported() {
			continue
		}
		seen[f.Name()] = true
		key := f.Name()
		tag, has := reflect.StructTag(st.Tag(i)).Lookup("json")
		if has {
			name := tag
			for k := 0; k < len(tag); k++ {
				if tag[k] == ',' {
					name = tag[:k]
					break
				}
			}
			if name == "-" && tag == "-" {
				key = "" // not encoded at all
			} else if name != "" {
				key = name
			}
		}
		want, listed := pt.Requires[f.Name()]
		if !listed {
			if pt.Closed {
				out = append(out, mk("wire-policy:"+f.Name(), "perm", "field "+f.Name()+" has an entry in the wire-name table (closed table)", "(assert (not false))\n"))
			}
			continue
		}
		body := "(assert (not true))\n"
		if key != want {
			body = "(assert (not false))\n"
		}
		out = append(out, mk("wire:"+f.Name(), "perm", fmt.Sprintf("field %s is encoded under the JSON key %q (declared: %q)", f.Name(), want, key), body))
	}
	var missing []string
	for m := range pt.Requires {
		if !seen[m] {
			missing = append(missing, m)
		}
	}
	sort.Strings(missing)
	for _, m := range missing {
		out = append(out, mk("wire-target:"+m, "unsupported", "table entry "+m+" names an existing exported field", "(assert true)\n"))
	}
	return out, nil
}
