package main

import (
	"bytes"
	"context"
	"fmt"
	"os"
	"os/exec"
	"path/filepath"
	"strings"
	"sync"
	"time"
)

type Verdict struct {
	Obl     *Obligation
	Result  string // unsat, sat, unknown, timeout, error
	Solver  string
	Seconds float64
	Model   string
	File    string
	Output  string
	OK      bool // discharged (unsat for obligations, sat for covers)
	Bytes   int
	Retried bool
	Agree    int      // solvers that gave the decisive answer (thorough tier waits for more than one)
	Disagree []string // solvers that gave the opposite definite answer
}

type solverDef struct {
	name string
	args func(file string, timeoutS int) []string
}

var solvers = []solverDef{
	{"z3-new", func(f string, t int) []string { return []string{"z3-new", fmt.Sprintf("-T:%d", t), f} }},
	{"z3", func(f string, t int) []string { return []string{"z3", fmt.Sprintf("-T:%d", t), f} }},
	{"cvc5", func(f string, t int) []string {
		return []string{"cvc5", "--produce-models", fmt.Sprintf("--tlimit=%d", t*1000), f}
	}},
}

func runSolver(ctx context.Context, sd solverDef, file string, timeoutS int) (string, string) {
	args := sd.args(file, timeoutS)
	cmd := exec.CommandContext(ctx, args[0], args[1:]...)
	var out bytes.Buffer
	cmd.Stdout = &out
	cmd.Stderr = &out
	_ = cmd.Run()
	text := out.String()
	first := ""
	for _, ln := range strings.Split(text, "\n") {
		ln = strings.TrimSpace(ln)
		// warnings (unusable pattern, unsupported option) precede the answer
		if ln == "" || strings.HasPrefix(ln, "WARNING") || ln == "unsupported" {
			continue
		}
		first = ln
		break
	}
	switch first {
	case "unsat", "sat", "unknown":
		if k := strings.Index(text, first+"\n"); k > 0 {
			text = text[k:]
		}
		return first, text
	}
	if strings.Contains(first, "timeout") || strings.Contains(text, "interrupted") {
		return "timeout", text
	}
	if ctx.Err() != nil {
		return "cancelled", text
	}
	return "error", text
}

// solveOne races the solvers on one obligation.
func solveOne(u *Universe, o *Obligation, outDir string, timeoutS int, seed int) *Verdict {
	body := o.Body
	pre := u.prelude(body)
	var text strings.Builder
	text.WriteString("; obligation " + o.Name + "\n; " + strings.ReplaceAll(o.Goal, "\n", " ") + "\n")
	text.WriteString("(set-option :produce-models true)\n(set-logic ALL)\n")
	if seed != 0 {
		fmt.Fprintf(&text, "(set-option :random-seed %d)\n", seed%1000)
	}
	text.WriteString(pre)
	text.WriteString(body)
	text.WriteString("(check-sat)\n(get-model)\n")
	fname := filepath.Join(outDir, sanitizeFile(o.Name)+".smt2")
	_ = os.WriteFile(fname, []byte(text.String()), 0o644)
	v := &Verdict{Obl: o, File: fname, Bytes: text.Len()}
	start := time.Now()
	ctx, cancel := context.WithTimeout(context.Background(), time.Duration(timeoutS+5)*time.Second)
	defer cancel()
	type res struct {
		solver, result, output string
	}
	ch := make(chan res, len(solvers))
	for _, sd := range solvers {
		go func(sd solverDef) {
			r, out := runSolver(ctx, sd, fname, timeoutS)
			ch <- res{sd.name, r, out}
		}(sd)
	}
	var outputs []string
	got := 0
	decided := false
	var grace <-chan time.Time
loop:
	for got < len(solvers) {
		var r res
		select {
		case r = <-ch:
		case <-grace:
			break loop
		}
		got++
		outputs = append(outputs, fmt.Sprintf("[%s] %s", r.solver, firstLines(r.output, 3)))
		if r.result == "unsat" || r.result == "sat" {
			if decided {
				// cross-check (thorough tier): a second solver's definite answer
				if r.result == v.Result {
					v.Agree++
				} else {
					v.Disagree = append(v.Disagree, r.solver+"="+r.result)
				}
				continue
			}
			decided = true
			v.Result, v.Solver = r.result, r.solver
			v.Agree = 1
			if r.result == "sat" {
				v.Model = r.output
			}
			if crossCheckS <= 0 || o.ExpectSat {
				cancel()
				break
			}
			grace = time.After(time.Duration(crossCheckS) * time.Second)
			continue
		}
		if !decided && (v.Result == "" || v.Result == "error" || v.Result == "cancelled") {
			v.Result, v.Solver = r.result, r.solver
		}
	}
	cancel()
	v.Seconds = time.Since(start).Seconds()
	v.Output = strings.Join(outputs, "\n")
	if o.ExpectSat {
		v.OK = v.Result == "sat"
		// a cover that times out is not a vacuity proof; treat unknown/timeout as inconclusive-but-ok
		if v.Result == "unknown" || v.Result == "timeout" {
			v.OK = true
		}
		if v.Result == "unsat" && o.PreBody != "" {
			// dead after the call: fine only if the path was dead before it as well
			po := &Obligation{Name: o.Name + ".before", Kind: "cover", Body: o.PreBody, ExpectSat: true, Goal: o.Goal}
			pv := solveOne(u, po, outDir, timeoutS, seed)
			if pv.Result == "sat" {
				v.Output += "\nlive before the call: " + pv.Output
			} else {
				v.OK = true
				v.Result = "dead-path"
			}
		}
	} else {
		v.OK = v.Result == "unsat" && len(v.Disagree) == 0
		if len(v.Disagree) > 0 {
			v.Output += "\nSOLVERS DISAGREE: " + v.Solver + "=" + v.Result + " but " + strings.Join(v.Disagree, ", ")
			v.Result = "disagreement"
		}
	}
	return v
}

// crossCheckS > 0 (thorough tier): after the first definite answer the other solvers get this many more
// seconds; a second unsat is recorded as agreement, a sat against an unsat fails the obligation.
var crossCheckS = 0

func firstLines(s string, n int) string {
	lines := strings.Split(strings.TrimSpace(s), "\n")
	if len(lines) > n {
		lines = lines[:n]
	}
	return strings.Join(lines, " | ")
}

func sanitizeFile(s string) string {
	var b strings.Builder
	for _, c := range s {
		switch {
		case c >= 'a' && c <= 'z', c >= 'A' && c <= 'Z', c >= '0' && c <= '9', c == '_', c == '-', c == '.', c == '#', c == '~':
			b.WriteRune(c)
		default:
			b.WriteRune('_')
		}
	}
	r := b.String()
	if len(r) > 180 {
		r = r[:180]
	}
	return r
}

func solveAll(u *Universe, obls []*Obligation, outDir string, timeoutS, workers, seed int) []*Verdict {
	_ = os.MkdirAll(outDir, 0o755)
	res := make([]*Verdict, len(obls))
	var wg sync.WaitGroup
	sem := make(chan struct{}, workers)
	// the universe is only read during solving, but prelude() is not goroutine-safe w.r.t. maps being
	// written; nothing writes after generation, so concurrent reads are fine.
	for i, o := range obls {
		wg.Add(1)
		sem <- struct{}{}
		go func(i int, o *Obligation) {
			defer wg.Done()
			defer func() { <-sem }()
			to := timeoutS
			if o.ExpectSat && to > 4 {
				to = 4 // covers: only an unsat answer matters (vacuity); sat/unknown are both fine
			}
			res[i] = solveOne(u, o, outDir, to, seed)
		}(i, o)
	}
	wg.Wait()
	// second stage: obligations that were not decided (timeout/unknown under load) are retried with
	// little contention and a longer limit; a definite answer (sat/unsat) is never retried.
	var retry []int
	for i, v := range res {
		undecided := v.Result != "sat" && v.Result != "unsat"
		if undecided && obls[i].Kind != "unsupported" && !obls[i].ExpectSat {
			retry = append(retry, i)
		}
	}
	if len(retry) > 0 {
		sem2 := make(chan struct{}, 4)
		for _, i := range retry {
			wg.Add(1)
			sem2 <- struct{}{}
			go func(i int) {
				defer wg.Done()
				defer func() { <-sem2 }()
				first := res[i].Seconds
				res[i] = solveOne(u, obls[i], outDir, timeoutS*4, seed)
				res[i].Seconds += first
				res[i].Retried = true
			}(i)
		}
		wg.Wait()
	}
	return res
}
