#!/bin/bash
# Runs every claimed check (quick tier) on the current tree and prints one line per property.
cd /verif
for p in $(python3 -c "import json;print(' '.join(c['property_id'] for c in json.load(open('MANIFEST.json'))['checks']))" 2>/dev/null || python3 -c "import json;print(' '.join(sorted(k for k,v in json.load(open('claims.json')).items() if 'text' in v)))"); do
  ./check $p 2>&1 | grep "VIOLATION\|KNOWN-FINDING\|govc:" | cut -c1-220
done
